#!/usr/bin/env python3
"""Regenerates MANIFEST.json from checks_config.py (single source of truth for what is claimed)."""
import json
import os

from checks_config import CHECKS, NOT_APPLICABLE, HOOK_COMMITS

VERIF = os.path.dirname(os.path.abspath(__file__))
ALL = ["C%02d" % i for i in range(1, 21)]

checks = []
for pid in ALL:
    if pid not in CHECKS or not CHECKS[pid].get("claimed", True):
        continue
    c = CHECKS[pid]
    checks.append({
        "property_id": pid,
        "quick_cmd": "./check %s quick" % pid,
        "thorough_cmd": "./check %s thorough" % pid,
        "evidence_file": "/verif/evidence/%s.json" % pid,
        "replay_cmd_template": "./check %s --replay {path}" % pid,
        "engine": c.get("engine_name", "+".join(sorted(set(p.get("engine", "") for p in c["parts"])))),
        "level_claimed": {"category": c["level"], "text": c["level_text"], "design_ref": c.get("design_ref", "DESIGN.md section 2, " + pid)},
        "level_note": c.get("level_note", "Trusted base: the harness's reference model (harness/props/model.go, expect.go), ergo's own read commands as the observation channel, kernel semantics of flock/O_APPEND/rename; exploration never establishes absence outside the generated cases."),
        "technique": c["technique"],
    })
na = [{"property_id": pid, "reason": NOT_APPLICABLE.get(pid, "check not built yet in this revision of /verif (work in progress)")} for pid in ALL if pid not in [c["property_id"] for c in checks]]
manifest = {
    "version": 1,
    "setup_cmd": "cd /verif/harness && GOTOOLCHAIN=local GOSUMDB=off GOFLAGS=-mod=vendor GOPROXY=off go test -c -o /verif/bin/harness.test ./props",
    "hooks": {
        "guard": "verif",
        "enable": "go build -tags verif ./cmd/ergo (the driver ./check does this from /repo's working tree on every run)",
        "baseline_off_cmd": "cd /repo && GOFLAGS=-mod=mod GOPROXY=off go test -vet=off -count=1 -timeout 25m ./...",
        "source_commits": HOOK_COMMITS,
        "add_only": True,
    },
    "engines": [
        {"name": "SEQ", "path": "harness/props/seq.go", "kind_free_text": "rapid-driven stateful command histories against the real binary, judged step by step by a reference model (expect.go/model.go) and state invariants (step.go)",
         "serves_properties": [p for p in ALL if p in CHECKS and any(x.get("engine") == "SEQ" for x in CHECKS[p]["parts"])]},
    ],
    "checks": checks,
    "not_applicable": na,
    "notes": "Driver: ./check <ID> quick|thorough|--replay <file>. Exit 2 = infrastructure trouble (never a violation). Fix commits and known findings: known_findings.json; design: DESIGN.md.",
}
with open(os.path.join(VERIF, "MANIFEST.json"), "w") as f:
    json.dump(manifest, f, indent=1)
    f.write("\n")
print("claimed:", [c["property_id"] for c in checks])

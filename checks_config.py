# Per-property configuration of the driver: which test functions decide the property,
# how many generated cases per shard in each tier, and what the evidence file says about
# level and assumptions. Counts are per shard; the driver starts min(shards, cores) shards.

COMMON_ASSUMPTIONS = [
    "the ergo binary is rebuilt from /repo's working tree (build tag verif) at the start of the run",
    "observations go through ergo's own list/show commands plus the raw log file; the kernel's flock/O_APPEND/rename semantics are trusted",
]


def seq(test, quick, thorough, shards=16):
    return {"test": test, "engine": "SEQ",
            "quick": {"checks": quick, "shards": shards, "budget_s": 150},
            "thorough": {"checks": thorough, "shards": shards, "budget_s": 1500, "timeout_s": 7200}}


HOOK_COMMITS = ["e513492"]

NOT_APPLICABLE = {}

CHECKS = {
    "C06": {"level": "exploration", "parts": [seq("TestC06", 60, 1500)], "assumptions": COMMON_ASSUMPTIONS,
            "technique": "model-based stateful property testing (rapid): generated command histories vs a reference state machine + claim invariant after every step",
            "level_text": "Generated-input exploration: thousands of random command histories over every request shape (state field, implied by claim, claim <id>, at creation; three input modes) are run against the real binary; after each step the reference model's MUST_ACCEPT/MUST_REJECT verdict, the expected resulting state/claimant and the claim invariants are compared with what list/show report. Right level because the property quantifies over histories and inputs and has an executable oracle; it does not prove absence."},
}

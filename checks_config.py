# Per-property configuration of the driver: which test functions decide the property,
# how many generated cases per shard in each tier, and what the evidence file says about
# level and assumptions. Counts are per shard; the driver starts min(shards, cores) shards.

COMMON_ASSUMPTIONS = [
    "the ergo binary is rebuilt from /repo's working tree (build tag verif) at the start of the run",
    "observations go through ergo's own list/show commands plus the raw log file; the kernel's flock/O_APPEND/rename semantics are trusted",
]


def seq(test, quick, thorough, shards=16):
    return {"test": test, "engine": "SEQ",
            "quick": {"checks": quick, "shards": shards, "budget_s": 150},
            "thorough": {"checks": thorough, "shards": shards, "budget_s": 1500, "timeout_s": 7200}}


HOOK_COMMITS = ["e513492"]

NOT_APPLICABLE = {}

def T(what, oracle):
    return {"technique": what, "level_text": oracle}


SEQ_LEVEL = ("Generated-input exploration (no absence claim): random command histories are executed against the real binary; after each step "
             "the reference model's verdict (MUST_ACCEPT / MUST_REJECT / EITHER), the expected resulting state and the state invariants "
             "are compared with what list/show and the raw log report. Failing histories are shrunk by rapid and then by greedy op deletion. ")

CHECKS = {
    "C05": {"level": "exploration", "parts": [seq("TestC05", 45, 900)], "assumptions": COMMON_ASSUMPTIONS,
            "technique": "metamorphic + differential property testing (rapid): compact(copy) must equal original on every observable field, compact∘compact idempotent, and a generated command suffix must behave identically on compacted and uncompacted copies",
            "level_text": SEQ_LEVEL + "C05 oracle: snapshot equality across compaction on all fields incl. timestamps, result order, ready/blocked; idempotence of the event sequence; equal exit codes and snapshots for every later command on both copies (includes the claim hand-out order)."},
    "C06": {"level": "exploration", "parts": [seq("TestC06", 60, 1500)], "assumptions": COMMON_ASSUMPTIONS,
            "technique": "model-based stateful property testing (rapid): generated command histories vs a reference state machine + claim invariant after every step",
            "level_text": SEQ_LEVEL + "C06 oracle: transition table and claim rule as data; every request shape (state field, implied by claim, claim <id>, at creation; three input modes) judged; invariants (six states, doing/error claimed, todo/done/canceled unclaimed, epics stateless) after every step."},
    "C07": {"level": "exploration", "parts": [seq("TestC07", 60, 1500)], "assumptions": COMMON_ASSUMPTIONS,
            "technique": "model-based stateful property testing (rapid): generated sequence / sequence rm / plan / prune histories vs a reference edge set; graph invariants (acyclic, same-kind, live endpoints, deps/rdeps mirror) after every step",
            "level_text": SEQ_LEVEL + "C07 oracle: a sequence request is MUST_REJECT exactly when the model says it would add a self / cross-kind / dangling / cyclic edge, otherwise exactly the named edges appear; sequence rm A B removes exactly B->A; deps/rdeps mirror each other in show."},
    "C09": {"level": "exploration", "parts": [seq("TestC09", 60, 1500)], "assumptions": COMMON_ASSUMPTIONS,
            "technique": "model-based stateful property testing (rapid): prune dry-run/apply sets vs the model's finished-work set; pruned ids must behave as nonexistent under every later command",
            "level_text": SEQ_LEVEL + "C09 oracle: dry-run ids == applied ids == model set (done/canceled tasks, then childless epics), dry run writes nothing; afterwards every command on a pruned id is MUST_REJECT and changes nothing; edges to pruned items disappear and readiness follows."},
    "C10": {"level": "exploration", "parts": [seq("TestC10", 60, 1500)], "assumptions": COMMON_ASSUMPTIONS,
            "technique": "stateful property testing (rapid) with failure injection: generated failing commands; oracle = observable snapshot and raw log bytes identical before/after any non-zero exit",
            "level_text": SEQ_LEVEL + "C10 oracle (no model needed): exit != 0 implies the full snapshot (list --all, --epics, show of every id, timestamps included) and the log bytes are unchanged; about half the generated commands are built to fail after an earlier part could have been written."},
    "C14": {"level": "exploration", "parts": [seq("TestC14", 60, 1500)], "assumptions": COMMON_ASSUMPTIONS,
            "technique": "model-based stateful property testing (rapid): epic references drawn from every role; invariant 'every epic_id names a live epic' after every step",
            "level_text": SEQ_LEVEL + "C14 oracle: requests whose epic id is unknown / pruned / a plain task are MUST_REJECT and leave the store untouched; after every step each task's epic_id is empty or a live epic's id and epics have none."},
    "C15": {"level": "exploration", "parts": [seq("TestC15", 60, 1500)], "assumptions": COMMON_ASSUMPTIONS,
            "technique": "stateful property testing (rapid) over two-level dependency graphs: progress invariant (todo work and nothing held => some task ready, claim != no_ready) after every step",
            "level_text": SEQ_LEVEL + "C15 oracle: whenever a task is todo and none is doing/blocked/error, list must show a ready task and claim on a copy must hand one out; requests that would close a cycle in the combined waits-for relation are MUST_REJECT."},
    "C16": {"level": "exploration", "parts": [seq("TestC16", 60, 1500)], "assumptions": COMMON_ASSUMPTIONS,
            "technique": "stateful property testing (rapid): strict single-JSON-value decoding of stdout for every command and reply-vs-read agreement",
            "level_text": SEQ_LEVEL + "C16 oracle: success => stdout is exactly one JSON value; failure => non-zero exit, stderr explanation, stdout empty or one error object; reported ids (fresh, six upper-case characters), state, claimant, claimed_at, edges, pruned ids, plan ids equal the immediately following show/list."},
    "C20": {"level": "exploration", "parts": [seq("TestC20", 60, 1500)], "assumptions": COMMON_ASSUMPTIONS,
            "technique": "model-based stateful property testing (rapid): generated result paths/summaries/targets; confinement predicate, sha256 recomputed by the harness, newest-first result list preserved across later commands and compaction",
            "level_text": SEQ_LEVEL + "C20 oracle: escaping / absolute / .ergo / missing / directory paths and non-task targets are MUST_REJECT; plain in-tree files MUST_ACCEPT with path == cleaned path, sha256 == harness hash, file_url == file:// + absolute path; results array equals the model's newest-first list after every later command."},
}

#!/usr/bin/env python3
"""Confirms seeded changes: each must apply to /repo's HEAD, compile, pass the unedited test
suite (389 stable tests), and its demonstration must fail with the change and pass without.
Works in a scratch worktree outside /repo and /verif; writes seeded/<id>/confirm.json."""
import json, os, subprocess, sys, glob, shutil

WT = "/tmp/rev/confirm-wt"
ENV = dict(os.environ, GOFLAGS="-mod=mod", GOPROXY="off")
BASE = json.load(open("/root/.vp/BASELINE.json"))["stable_pass"]

def sh(cmd, cwd=WT, timeout=900, env=ENV):
    p = subprocess.run(cmd, shell=True, cwd=cwd, env=env, stdout=subprocess.PIPE, stderr=subprocess.STDOUT, text=True, timeout=timeout, errors="replace")
    return p.returncode, p.stdout

def suite():
    rc, out = sh("go test -vet=off -count=1 -json ./... 2>/dev/null")
    res = {}
    for l in out.splitlines():
        try:
            e = json.loads(l)
        except Exception:
            continue
        if e.get("Test") and e.get("Action") in ("pass", "fail", "skip"):
            res[e["Package"] + "::" + e["Test"]] = e["Action"]
    missing = [t for t in BASE if res.get(t) != "pass"]
    return missing

def build(tag):
    out = "/tmp/rev/confirm-bin/ergo-" + tag
    os.makedirs("/tmp/rev/confirm-bin", exist_ok=True)
    rc, o = sh("go build -tags verif -o %s ./cmd/ergo" % out)
    return out if rc == 0 else None

def run_demo(d, binary):
    if os.path.exists(os.path.join(d, "demo.sh")):
        try:
            rc, out = sh("bash %s %s" % (os.path.join(d, "demo.sh"), binary), cwd="/tmp", timeout=600)
        except subprocess.TimeoutExpired:
            return 124, "timeout"
        return rc, out[-1500:]
    if os.path.exists(os.path.join(d, "demo_test.go")):
        pkg = "internal/ergo"
        dst = os.path.join(WT, pkg, "zz_demo_test.go")
        shutil.copy(os.path.join(d, "demo_test.go"), dst)
        rc, out = sh("go test -tags verif -vet=off -count=1 -run 'TestMut|Demo|Seed|TestC[0-9][0-9]M' ./%s/" % pkg)
        os.remove(dst)
        return rc, out[-1500:]
    return None, "no demo"

def main():
    ids = sys.argv[1:] or sorted(os.path.basename(p) for p in glob.glob("/verif/seeded/C*"))
    if not os.path.isdir(WT):
        subprocess.run(["git", "-C", "/repo", "worktree", "add", "-q", "--detach", WT, "HEAD"], check=True)
    sh("git reset -q --hard && git clean -fdq && git checkout -q --detach main")
    base_bin = build("base")
    for i in ids:
        d = "/verif/seeded/" + i
        patch = os.path.join(d, "patch.rebased.diff")
        if not os.path.exists(patch):
            patch = os.path.join(d, "patch.diff")
        res = {"id": i, "patch": os.path.basename(patch), "repo_head": subprocess.check_output(["git", "-C", "/repo", "rev-parse", "--short", "HEAD"], text=True).strip()}
        sh("git reset -q --hard && git clean -fdq")
        rc, out = sh("git apply %s" % patch)
        res["applies"] = rc == 0
        if rc == 0:
            mb = build("mut")
            res["compiles"] = mb is not None
            if mb:
                missing = suite()
                res["suite_passes"] = len(missing) == 0
                res["suite_missing"] = missing[:5]
                rc1, o1 = run_demo(d, mb)
                res["demo_with_patch_rc"] = rc1
                res["demo_with_patch_tail"] = o1[-600:]
        sh("git reset -q --hard && git clean -fdq")
        rc0, o0 = run_demo(d, base_bin)
        res["demo_without_patch_rc"] = rc0
        res["confirmed"] = bool(res.get("applies") and res.get("compiles") and res.get("suite_passes") and res.get("demo_with_patch_rc") not in (0, None) and rc0 == 0)
        json.dump(res, open(os.path.join(d, "confirm.json"), "w"), indent=1)
        print(i, "CONFIRMED" if res["confirmed"] else "NOT-CONFIRMED", {k: res.get(k) for k in ("applies", "compiles", "suite_passes", "demo_with_patch_rc", "demo_without_patch_rc")}, flush=True)

main()

#!/bin/bash
# developer helper: rebuild ergo + harness, run one test. usage: dev.sh TestC06 [extra args]
set -e
(cd /repo && GOFLAGS=-mod=mod GOPROXY=off go build -tags verif -o /verif/.build/ergo ./cmd/ergo)
(cd /verif/harness && GOTOOLCHAIN=local GOSUMDB=off GOFLAGS=-mod=vendor GOPROXY=off go test -c -o /verif/bin/harness.test ./props)
T=$1; shift
cd /verif && VERIF_ERGO=${VERIF_ERGO:-/verif/.build/ergo} VERIF_STATS=/tmp/dev-$T.json ./bin/harness.test -test.run "^$T\$" -test.timeout 300s "$@"

#!/bin/bash
# runs every quick check on the unchanged tree and reports exit codes / wall time
cd /verif
for i in $(seq -w 1 20); do
  c=C$i; s=$(date +%s)
  out=$(./check $c ${TIER:-quick} 2>&1); rc=$?
  echo "$c rc=$rc $(( $(date +%s)-s ))s violations=$(echo "$out" | grep -c '^VIOLATION')"
  [ $rc -ne 0 ] && echo "$out" | tail -5 | cut -c1-300
done

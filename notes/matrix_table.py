#!/usr/bin/env python3
"""Prints the sensitivity table (markdown) from notes/matrix.jsonl: latest result per (mutant, check)."""
import json, os, collections
rows = [json.loads(l) for l in open(os.path.join(os.path.dirname(__file__), "matrix.jsonl")) if l.strip()]
latest = collections.OrderedDict()
for r in rows:
    if "error" in r:
        latest[(r["mutant"], "-")] = r
    else:
        latest[(r["mutant"], r["check"])] = r
        latest.pop((r["mutant"], "-"), None)
by_mut = collections.OrderedDict()
for (m, c), r in latest.items():
    by_mut.setdefault(m, []).append((c, r))
def title(m):
    p = "/verif/seeded/%s/meta.json" % m
    try:
        return json.load(open(p)).get("title", "")[:90]
    except Exception:
        return ""
print("| Seeded change | What it is | Own check | Other checks that catch it |")
print("|---|---|---|---|")
own_caught = total = 0
for m, lst in sorted(by_mut.items()):
    own = m.split("-")[0]
    o = [r for c, r in lst if c == own]
    others = [c for c, r in lst if c != own and r.get("caught")]
    missed_others = [c for c, r in lst if c not in (own, "-") and not r.get("caught")]
    if o:
        total += 1
        own_caught += 1 if o[0]["caught"] else 0
        cell = ("caught in %.0f s" % o[0]["wall_s"]) if o[0]["caught"] else "**missed**"
    else:
        cell = "n/a (%s)" % lst[0][1].get("error", "")
    oc = ", ".join(others) + ((" (not: " + ", ".join(missed_others) + ")") if missed_others else "")
    print("| %s | %s | %s | %s |" % (m, title(m).replace("|", "/"), cell, oc))
print()
print("Own check catches %d of %d." % (own_caught, total))

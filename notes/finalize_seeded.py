#!/usr/bin/env python3
"""Adds to every seeded/<id>/meta.json what was done with it here: confirmation run and
which checks caught / missed it (latest result per check from notes/matrix.jsonl)."""
import json, os, glob, collections
rows = [json.loads(l) for l in open("/verif/notes/matrix.jsonl") if l.strip()]
latest = collections.OrderedDict()
for r in rows:
    if "error" in r:
        continue
    latest[(r["mutant"], r["check"])] = r
for d in sorted(glob.glob("/verif/seeded/C*")):
    mid = os.path.basename(d)
    mp = os.path.join(d, "meta.json")
    try:
        meta = json.load(open(mp))
    except Exception:
        meta = {}
    conf = {}
    cp = os.path.join(d, "confirm.json")
    if os.path.exists(cp):
        conf = json.load(open(cp))
    caught = [c for (m, c), r in latest.items() if m == mid and r["caught"]]
    missed = [c for (m, c), r in latest.items() if m == mid and not r["caught"]]
    meta["property"] = mid.split("-")[0]
    import re
    m = re.search(r"-r(\d)m", mid)
    meta["round"] = int(m.group(1)) if m else 1
    meta["verif"] = {
        "confirmed_here": bool(conf.get("confirmed")),
        "what_was_run": "confirm_seeded.py in a scratch worktree of /repo at %s: git apply %s; go build; unedited suite (389 stable tests pass: %s); demonstration with the change (exit %s) and without (exit %s)" % (
            conf.get("repo_head", "?"), conf.get("patch", "patch.diff"), conf.get("suite_passes"), conf.get("demo_with_patch_rc"), conf.get("demo_without_patch_rc")),
        "quick_checks_that_caught_it": caught,
        "quick_checks_that_missed_it": missed,
    }
    if mid == "C13-m2":
        meta["verif"]["note"] = "obsolete: after repair e0944d1 (atomic tail repair) this change no longer manifests - its demonstration passes with the change applied"
    json.dump(meta, open(mp, "w"), indent=1, ensure_ascii=False)
print("updated", len(glob.glob("/verif/seeded/C*")))

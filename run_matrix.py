#!/usr/bin/env python3
"""Runs every confirmed seeded change against the quick check of its own property (and
extra properties given in MATRIX_EXTRA) using a scratch worktree of /repo (VERIF_REPO),
and appends one JSON line per run to notes/matrix.jsonl."""
import json, os, subprocess, sys, glob, time

WT = "/tmp/rev/matrix-wt"
OUT = "/verif/notes/matrix.jsonl"
EXTRA = {"C08-m2": ["C01"], "C05-m2": ["C02"], "C05-m3": ["C03", "C04"], "C20-m3": ["C02"], "C12-m1": ["C02", "C11"], "C14-m2": ["C02"], "C14-m3": ["C04"],
         "C15-m3": ["C02", "C07"], "C16-m2": ["C02", "C09"], "C16-m3": ["C09"], "C10-m1": ["C04", "C02"], "C10-m2": ["C02"], "C06-m2": ["C04"], "C06-m3": ["C02"],
         "C07-m1": ["C02"], "C03-m2": ["C04"], "C02-m2": ["C05"], "C11-m1": ["C04"], "C11-m2": ["C02"], "C13-m1": ["C03", "C04"], "C09-m1": ["C02"], "C09-m2": ["C12"], "C01-m3": ["C08"],
         "C01-r2m3": ["C08"], "C15-r2m3": ["C03", "C07"], "C09-r2m1": ["C05", "C14"], "C07-r2m3": ["C03"], "C06-r2m3": ["C02"], "C11-r2m1": ["C09", "C16"],
         "C11-r2m3": ["C02"], "C12-r2m1": ["C18"], "C12-r2m2": ["C03"], "C13-r2m2": ["C18", "C02"], "C13-r2m3": ["C03"], "C14-r2m1": ["C09"], "C14-r2m3": ["C09", "C02"],
         "C15-r2m1": ["C08"], "C08-r4m3": ["C07"], "C03-r6m2": ["C02"], "C03-r6m3": ["C05"], "C08-r6m3": ["C07"], "C08-r6m2": ["C11"], "C14-r6m1": ["C19"], "C14-r6m3": ["C11", "C09"], "C17-r6m3": ["C05"], "C18-r6m2": ["C13", "C04"], "C09-r3m2": ["C14"], "C05-r5m1": ["C20"], "C12-r5m2": ["C13"], "C16-r2m1": ["C02", "C01"], "C16-r2m3": ["C03"], "C17-r2m3": ["C02", "C05"], "C18-r2m1": ["C02", "C05"], "C20-r2m2": ["C03"]}

def sh(cmd, cwd=None, env=None, timeout=3600):
    p = subprocess.run(cmd, shell=True, cwd=cwd, env=env, stdout=subprocess.PIPE, stderr=subprocess.STDOUT, text=True, timeout=timeout, errors="replace")
    return p.returncode, p.stdout

def main():
    ids = sys.argv[1:] or sorted(os.path.basename(p) for p in glob.glob("/verif/seeded/C*"))
    if not os.path.isdir(WT):
        subprocess.run(["git", "-C", "/repo", "worktree", "add", "-q", "--detach", WT, "HEAD"], check=True)
    head = subprocess.check_output(["git", "-C", "/repo", "rev-parse", "--short", "HEAD"], text=True).strip()
    os.makedirs("/verif/notes", exist_ok=True)
    for i in ids:
        d = "/verif/seeded/" + i
        patch = os.path.join(d, "patch.rebased.diff")
        if not os.path.exists(patch):
            patch = os.path.join(d, "patch.diff")
        sh("git reset -q --hard %s && git clean -fdq" % head, cwd=WT)
        rc, out = sh("git apply %s" % patch, cwd=WT)
        if rc != 0:
            rc, out = sh("git apply -3 %s" % patch, cwd=WT)
        if rc != 0:
            open(OUT, "a").write(json.dumps({"mutant": i, "error": "patch does not apply to " + head}) + "\n")
            continue
        prop = i.split("-")[0]
        for c in [prop] + EXTRA.get(i, []):
            t0 = time.time()
            env = dict(os.environ, VERIF_REPO=WT, VERIF_SEED=os.environ.get("VERIF_SEED", "1"))
            rc, out = sh("./check %s quick" % c, cwd="/verif", env=env)
            viol = [l for l in out.splitlines() if l.startswith("VIOLATION")]
            msg = ""
            lines = out.splitlines()
            for k, l in enumerate(lines):
                if l.startswith("VIOLATION") and k + 1 < len(lines):
                    msg = lines[k + 1].strip()[:300]
                    break
            rec = {"mutant": i, "check": c, "rc": rc, "caught": rc == 1 and len(viol) > 0, "wall_s": round(time.time() - t0, 1), "first_message": msg, "repo_head": head}
            open(OUT, "a").write(json.dumps(rec) + "\n")
            print(rec, flush=True)
    sh("git reset -q --hard %s && git clean -fdq" % head, cwd=WT)

main()

#!/bin/bash
# sensitivity helper: sens.sh <patch> <prop> [<prop>...]  -- applies the patch to /repo, runs quick checks, reverts.
P=$1; shift
cd /repo && git apply "$P" || { echo "patch does not apply"; exit 3; }
trap 'git -C /repo checkout -- . ; git -C /repo clean -fdq' EXIT
for c in "$@"; do
  s=$(date +%s)
  out=$(cd /verif && ./check $c ${TIER:-quick} 2>&1); rc=$?
  echo "== $c rc=$rc $(( $(date +%s)-s ))s :: $(echo "$out" | grep -m2 -A1 VIOLATION | tr '\n' ' ' | cut -c1-400)"
done

//go:build tools

package tools

import (
	_ "github.com/creack/pty"
	_ "pgregory.net/rapid"
)

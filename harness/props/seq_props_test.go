package props

import (
	"testing"
)

func TestC06(t *testing.T) {
	RunSeq(t, SeqCheck{
		Prop: "C06",
		Profile: Profile{Name: "state-machine", Weights: weightsWith(map[string]int{"set": 40, "claim_id": 14, "new_task": 20, "claim": 8, "sequence": 3, "plan": 1, "compact": 2}),
			BadRef: 6, Spoil: 5, Results: 3, MinSteps: 6, MaxSteps: 30},
		Rule: "random command histories (rapid); a history is non-trivial when some request with a state or claim hits a task that is not (todo, unclaimed) or carries >= 2 of {state, claim, --agent}; distinct = distinct sequences of (command, input mode, fields present, target's prior state, verdict, outcome)",
		NonTrivial: func(h []stepInfo) bool {
			for _, s := range h {
				op := s.Out.Op
				if op.State == nil && op.Claim == nil && op.Kind != "claim_id" {
					continue
				}
				n := 0
				if op.State != nil {
					n++
				}
				if op.Claim != nil {
					n++
				}
				if op.Agent != "" {
					n++
				}
				if n >= 2 || (s.PreState != "" && s.PreState != "new" && (s.PreState != "todo" || s.PreClaim != "")) {
					return true
				}
			}
			return false
		},
	})
}

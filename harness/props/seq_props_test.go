package props

import (
	"fmt"
	"strings"
	"testing"

	"pgregory.net/rapid"
)

const distinctRule = "; distinct = distinct sequences of (command, input mode, fields present, target's prior state, model verdict, outcome)"

func anyStep(h []stepInfo, f func(s stepInfo) bool) bool {
	for _, s := range h {
		if f(s) {
			return true
		}
	}
	return false
}

func countSteps(h []stepInfo, f func(s stepInfo) bool) int {
	n := 0
	for _, s := range h {
		if f(s) {
			n++
		}
	}
	return n
}

func hasOwner(s stepInfo, owner string) bool {
	for _, r := range s.Out.Reasons {
		if r.Owner == owner {
			return true
		}
	}
	return false
}

func TestC05(t *testing.T) {
	RunSeq(t, SeqCheck{
		Prop: "C05", FaultPct: 6, TolerateResidue: true, // C05 also speaks of logs whose tail was torn by a crash
		Profile: Profile{Name: "compaction", Weights: weightsWith(map[string]int{"fork_compact": 9, "compact": 6, "prune_yes": 7, "set": 30, "claim": 9, "claim_id": 6, "plan": 4}),
			BadRef: 4, Spoil: 3, Results: 18, MinSteps: 8, MaxSteps: 34, RedatePct: -1}, // C05 speaks of logs the CLI produces: time grows along them
		Rule: "random command histories with a fork point: the store is copied, the copy compacted (and compacted again), and every later command is run on both copies; non-trivial = before a compaction the history has a prune, a re-claim/unclaim, a title/body/epic change, >= 2 results on one task or a reopen, and >= 1 mutation follows the fork" + distinctRule,
		NonTrivial: func(h []stepInfo) bool {
			fork := -1
			for i, s := range h {
				if s.Out.Op.Kind == "fork_compact" || (s.Out.Op.Kind == "compact" && s.Out.Accepted) {
					fork = i
					break
				}
			}
			if fork < 0 {
				return false
			}
			rich := anyStep(h[:fork], func(s stepInfo) bool {
				op := s.Out.Op
				if !s.Out.Accepted {
					return false
				}
				switch op.Kind {
				case "prune_yes":
					return true
				case "set":
					return op.Title != nil || op.Body != nil || op.Epic != nil || op.Claim != nil || op.ResultPath != nil ||
						(op.State != nil && *op.State == "todo" && (s.PreState == "done" || s.PreState == "canceled" || s.PreState == "doing"))
				case "claim_id":
					return s.PreState == "doing" || s.PreState == "error"
				}
				return false
			})
			after := anyStep(h[fork+1:], func(s stepInfo) bool { return s.Out.Accepted && s.Out.Op.IsMutation() })
			return rich && (after || h[fork].Out.Op.Kind == "compact")
		},
	})
}

func TestC06(t *testing.T) {
	RunSeq(t, SeqCheck{
		Prop: "C06",
		Profile: Profile{Name: "state-machine", Weights: weightsWith(map[string]int{"set": 40, "claim_id": 14, "new_task": 20, "claim": 8, "sequence": 3, "plan": 1, "compact": 2}),
			BadRef: 6, Spoil: 5, Results: 3, MinSteps: 6, MaxSteps: 30},
		Rule: "random command histories (rapid); non-trivial = some request with a state or claim hits a task that is not (todo, unclaimed) or carries >= 2 of {state, claim, --agent}" + distinctRule,
		NonTrivial: func(h []stepInfo) bool {
			return anyStep(h, func(s stepInfo) bool {
				op := s.Out.Op
				if op.State == nil && op.Claim == nil && op.Kind != "claim_id" {
					return false
				}
				n := 0
				if op.State != nil {
					n++
				}
				if op.Claim != nil {
					n++
				}
				if op.Agent != "" {
					n++
				}
				return n >= 2 || (s.PreState != "" && s.PreState != "new" && (s.PreState != "todo" || s.PreClaim != ""))
			})
		},
	})
}

func TestC07(t *testing.T) {
	RunSeq(t, SeqCheck{
		Prop: "C07",
		Profile: Profile{Name: "dependencies", Weights: weightsWith(map[string]int{"sequence": 34, "sequence_rm": 12, "plan": 6, "prune_yes": 7, "new_task": 14, "new_epic": 8, "set": 12, "claim": 3, "claim_id": 2}),
			BadRef: 14, Spoil: 3, Results: 0, MinSteps: 8, MaxSteps: 32},
		Rule: "random command histories weighted to sequence / sequence rm / plan / prune with ids from every role (live, other kind, pruned, unknown, self); non-trivial = a rejected cycle/self/cross-kind attempt, an accepted removal, or a prune that deletes an edge endpoint" + distinctRule,
		NonTrivial: func(h []stepInfo) bool {
			return anyStep(h, func(s stepInfo) bool {
				op := s.Out.Op
				switch op.Kind {
				case "sequence":
					return !s.Out.Accepted && hasOwner(s, "C07")
				case "sequence_rm":
					return s.Out.Accepted && s.Out.Decision == "MUST_ACCEPT"
				case "prune_yes":
					if !s.Out.Accepted || s.Out.Post == nil {
						return false
					}
					for id, it := range s.Pre.Items {
						if s.Out.Post.Items[id] == nil && (len(it.Deps) > 0 || len(it.RDeps) > 0) {
							return true
						}
					}
				}
				return false
			})
		},
	})
}

func TestC09(t *testing.T) {
	RunSeq(t, SeqCheck{
		Prop: "C09", FaultPct: 5, TolerateResidue: true, // "every store state": also what a torn batch leaves (a finished task with a stray claim is still finished work)
		GenOp: func(rt *rapid.T, w *World, pre *Snapshot, prof Profile) Op {
			// now and then a command dies inside its log write: prune (dry run and real) must
			// behave on a log with a torn tail too
			if w.StepNo >= 3 && StraceAvailable() == nil && pct(rt, 7, "c09.tear") {
				inner := genOp(rt, w, pre, Profile{Name: "inner", Weights: map[string]int{"new_task": 40, "set": 60}})
				return Op{Kind: "fault", Inner: &inner, FaultKind: "tear", Frac: float64(uni(rt, 1000, "frac")) / 1000}
			}
			return genOp(rt, w, pre, prof)
		},
		Profile: Profile{Name: "prune", Weights: weightsWith(map[string]int{"prune": 8, "prune_yes": 14, "compact": 10, "set": 34, "claim_id": 6, "sequence": 10, "new_task": 16, "new_epic": 8}),
			EpicPct: 45, BadRef: 22, Spoil: 2, Results: 4, MinSteps: 8, MaxSteps: 34},
		Rule: "random command histories mixing states and epic memberships with prune / prune --yes / compact and later commands aimed at pruned ids; non-trivial = a prune --yes that removes >= 1 item while >= 1 item stays, followed by a command on a pruned id or a compact" + distinctRule,
		NonTrivial: func(h []stepInfo) bool {
			for i, s := range h {
				if s.Out.Op.Kind != "prune_yes" || !s.Out.Accepted || s.Out.Post == nil {
					continue
				}
				removed := len(s.Pre.Items) - len(s.Out.Post.Items)
				if removed < 1 || len(s.Out.Post.Items) < 1 {
					continue
				}
				if anyStep(h[i+1:], func(x stepInfo) bool { return x.Out.Op.Kind == "compact" || hasOwner(x, "C09") }) {
					return true
				}
			}
			return false
		},
	})
}

func TestC10(t *testing.T) {
	RunSeq(t, SeqCheck{
		Prop: "C10", FaultPct: 4, TolerateResidue: true, // "every pre-state" includes what a crash left
		Profile: Profile{Name: "failing-commands", Weights: weightsWith(map[string]int{"set": 34, "new_task": 22, "sequence": 16, "plan": 6, "claim_id": 8, "new_epic": 5}),
			BadRef: 25, Spoil: 45, Results: 25, HoldLock: 6, MinSteps: 6, MaxSteps: 30},
		Rule: "random command histories in which about half the commands are built to fail (bad state value, blank title, unknown key, malformed / double JSON, unknown / pruned id, illegal transition, missing claim, cycle, self / cross-kind edge, bad result path or summary, lock held by the harness); non-trivial = a failing command that carries >= 2 fields or edges, or targets an existing item" + distinctRule,
		NonTrivial: func(h []stepInfo) bool {
			return anyStep(h, func(s stepInfo) bool {
				if s.Out.Accepted {
					return false
				}
				op := s.Out.Op
				n := len(strings.Split(fieldSig(op), ","))
				return n >= 2 || len(op.Refs) >= 3 || (op.Target != nil && s.TargetOK)
			})
		},
	})
}

func TestC14(t *testing.T) {
	RunSeq(t, SeqCheck{
		Prop: "C14",
		Profile: Profile{Name: "epic-references", Weights: weightsWith(map[string]int{"new_task": 26, "set": 36, "new_epic": 10, "prune_yes": 9, "compact": 4, "plan": 4, "sequence": 10}),
			BadRef: 35, Spoil: 3, Results: 2, MinSteps: 6, MaxSteps: 30, EpicPct: 45, StatePct: 55,
			StatePool: []string{"doing", "doing", "error", "error", "done", "done", "canceled", "todo", "blocked"}},
		Rule: "random command histories where --epic / epic is drawn from {live epic, live task, unknown, pruned epic, pruned task, \"\"} in new task and set (three input modes), with plan, prune, compact; non-trivial = a request whose epic id is not a live epic, or a prune/compact while some epic has members" + distinctRule,
		NonTrivial: func(h []stepInfo) bool {
			return anyStep(h, func(s stepInfo) bool {
				if hasOwner(s, "C14") {
					return true
				}
				if (s.Out.Op.Kind == "prune_yes" || s.Out.Op.Kind == "compact") && s.Out.Accepted {
					for _, it := range s.Pre.Items {
						if !it.IsEpic && it.EpicID != "" {
							return true
						}
					}
				}
				return false
			})
		},
		GenOp: func(rt *rapid.T, w *World, pre *Snapshot, prof Profile) Op {
			// now and then a dependency between tasks of different containers (two epics, or an
			// epic and the root): where a task is shown must not depend on what it waits for
			if w.StepNo >= 3 && pct(rt, 8, "c14.cross") {
				tasks := pre.Tasks()
				for tries := 0; tries < 6 && len(tasks) >= 2; tries++ {
					a, b := tasks[uni(rt, len(tasks), "c14.cross.a")], tasks[uni(rt, len(tasks), "c14.cross.b")]
					if a.ID != b.ID && a.EpicID != b.EpicID {
						g := refGen{rt, w, pre}
						return Op{Kind: "sequence", Refs: []Ref{g.ref(a.ID), g.ref(b.ID)}}
					}
				}
			}
			return genOp(rt, w, pre, prof)
		},
		// "every live task remains visible under its epic (or at the root) in every list
		// view": the human views are views too
		AfterStep: func(rt *rapid.T, w *World, h []stepInfo) []Violation {
			post := h[len(h)-1].Out.Post
			if post == nil || len(h)%2 != 0 {
				return nil
			}
			var viol []Violation
			r := Run(Cmd{Args: []string{"list", "--all"}, Dir: w.Root})
			if !r.OK() {
				return []Violation{{"C14", "human `list --all` fails: " + clip(r.Stderr, 160)}}
			}
			for _, id := range post.SortedIDs() {
				if !strings.Contains(r.Stdout, id) {
					it := post.Items[id]
					viol = append(viol, Violation{"C14", fmt.Sprintf("live %s %s (epic %q, %s) is missing from the human `list --all`", map[bool]string{true: "epic", false: "task"}[it.IsEpic], id, it.EpicID, it.State)})
				}
			}
			for _, it := range post.Tasks() {
				if it.EpicID == "" || post.Items[it.EpicID] == nil {
					continue
				}
				re := Run(Cmd{Args: []string{"list", "--all", "--epic", it.EpicID}, Dir: w.Root})
				if re.OK() && !strings.Contains(re.Stdout, it.ID) {
					viol = append(viol, Violation{"C14", fmt.Sprintf("task %s is not shown under its epic %s by the human `list --all --epic`", it.ID, it.EpicID)})
				}
				break
			}
			return viol
		},
	})
}

func c15Shape(s *Snapshot) (pre bool, mixed bool) {
	todo, held := 0, 0
	for _, it := range s.Items {
		if it.IsEpic {
			continue
		}
		switch it.State {
		case "todo":
			todo++
			if it.ClaimedBy != "" {
				held++
			}
		case "doing", "blocked", "error":
			held++
		}
	}
	epicEdge, cross := false, false
	for _, it := range s.Items {
		for _, d := range it.Deps {
			o := s.Items[d]
			if o == nil {
				continue
			}
			if it.IsEpic {
				epicEdge = true
			} else if it.EpicID != o.EpicID {
				cross = true
			}
		}
	}
	return todo > 0 && held == 0, epicEdge && cross
}

type c15MacroState struct {
	tag   string
	stage int
}

// c15Macro holds, per running history, the progress of the scripted structure of TestC15.
var c15Macro = map[*World]*c15MacroState{}

func TestC15(t *testing.T) {
	RunSeq(t, SeqCheck{
		Prop: "C15",
		Profile: Profile{Name: "two-level-graphs", Weights: weightsWith(map[string]int{"sequence": 36, "new_task": 20, "new_epic": 10, "set": 22, "plan": 3, "prune_yes": 3, "claim": 1, "claim_id": 0, "sequence_rm": 5, "compact": 2}),
			BadRef: 2, Spoil: 0, Results: 0, MinSteps: 10, MaxSteps: 36, EpicPct: 80, SeqEpicPct: 40,
			StatePool: []string{"done", "canceled", "todo", "todo", "done"}, StatePct: 30, ClaimPct: -1, MixedPct: 70},
		Rule: "random command histories over two-level graphs (task edges across epics, epic edges, tasks moved between epics, prune, plan); after every step: if some task is todo and none is doing/blocked/error, some task must be ready and `claim` on a copy of the store must not say no_ready; non-trivial = at some step the precondition holds while an epic edge and a task edge between tasks of different epics coexist" + distinctRule,
		NonTrivial: func(h []stepInfo) bool {
			return anyStep(h, func(s stepInfo) bool {
				if s.Out.Post == nil {
					return false
				}
				pre, mixed := c15Shape(s.Out.Post)
				return pre && mixed
			})
		},
		GenOp: func(rt *rapid.T, w *World, pre *Snapshot, prof Profile) Op {
			// now and then a fixed structure is built step by step: three epics in a chain whose
			// middle one stays empty, a task of the first waiting for a task of the last
			// (legal: an empty epic is complete), then prune --yes, which removes the middle
			// epic - whatever prune does with the edges around it must not create a deadlock
			st := c15Macro[w]
			if st == nil && w.StepNo >= 1 && w.StepNo <= 12 && pct(rt, 5, "c15.chain") {
				st = &c15MacroState{tag: w.UniqueTitle("chain")}
				c15Macro[w] = st
				if len(c15Macro) > 64 {
					for k := range c15Macro {
						if k != w {
							delete(c15Macro, k)
						}
					}
				}
			}
			if st != nil {
				find := func(name string) *Ref {
					for _, id := range pre.SortedIDs() {
						if pre.Items[id].Title == st.tag+" "+name {
							r := refGen{rt, w, pre}.ref(id)
							return &r
						}
					}
					return nil
				}
				e1, e2, e3, t1, t3 := find("E1"), find("E2"), find("E3"), find("T1"), find("T3")
				st.stage++
				switch {
				case st.stage == 1:
					return Op{Kind: "new_epic", Mode: "json", Title: sp(st.tag + " E1")}
				case st.stage == 2:
					return Op{Kind: "new_epic", Mode: "json", Title: sp(st.tag + " E2")}
				case st.stage == 3:
					return Op{Kind: "new_epic", Mode: "json", Title: sp(st.tag + " E3")}
				case st.stage == 4 && e1 != nil && e2 != nil && e3 != nil:
					return Op{Kind: "sequence", Refs: []Ref{*e1, *e2, *e3}}
				case st.stage == 5 && e1 != nil:
					return Op{Kind: "new_task", Mode: "json", Title: sp(st.tag + " T1"), Epic: e1}
				case st.stage == 6 && e3 != nil:
					return Op{Kind: "new_task", Mode: "json", Title: sp(st.tag + " T3"), Epic: e3}
				case st.stage == 7 && t1 != nil && t3 != nil:
					return Op{Kind: "sequence", Refs: []Ref{*t3, *t1}}
				case st.stage == 8:
					delete(c15Macro, w)
					return Op{Kind: "prune_yes"}
				}
				delete(c15Macro, w)
			}
			return genOp(rt, w, pre, prof)
		},
		AfterStep: func(rt *rapid.T, w *World, h []stepInfo) []Violation {
			post := h[len(h)-1].Out.Post
			if pre, _ := c15Shape(post); !pre {
				return nil
			}
			probe := CloneStore(w.Root, "c15probe")
			defer RemoveAll(probe)
			r := Run(Cmd{Args: []string{"--json", "claim", "--agent", "probe"}, Dir: probe})
			if !r.OK() {
				return []Violation{{"C15", "claim failed while unfinished work exists: " + clip(r.Stderr, 200)}}
			}
			if strings.Contains(r.Stdout, "no_ready") {
				return []Violation{{"C15", "claim answers no_ready although a task is todo and nothing is doing, blocked or error"}}
			}
			return nil
		},
	})
}

func TestC16(t *testing.T) {
	RunSeq(t, SeqCheck{
		Prop: "C16",
		Profile: Profile{Name: "json-contract", Weights: weightsWith(nil),
			BadRef: 12, Spoil: 18, Results: 8, HoldLock: 2, MinSteps: 6, MaxSteps: 30},
		Rule: "random command histories with --json on every command (before or after the subcommand, with --quiet / --verbose, three input modes, succeeding and failing); non-trivial = an accepted mutation whose reply carries state, ids or edges and a failing command in the same history" + distinctRule,
		NonTrivial: func(h []stepInfo) bool {
			ok := anyStep(h, func(s stepInfo) bool {
				if !s.Out.Accepted {
					return false
				}
				switch s.Out.Op.Kind {
				case "new_task", "set", "claim", "claim_id", "sequence", "plan", "prune_yes":
					return true
				}
				return false
			})
			return ok && anyStep(h, func(s stepInfo) bool { return !s.Out.Accepted })
		},
		// every seventh step (no random choice: replays do the same) a --json command is run
		// whose stdout cannot take a single byte: it cannot have written its one JSON value,
		// so it must not report success
		AfterStep: func(rt *rapid.T, w *World, h []stepInfo) []Violation {
			if len(h)%7 != 3 {
				return nil
			}
			var viol []Violation
			cmds := [][]string{{"--json", "list", "--all"}, {"--json", "where"}}
			if last := h[len(h)-1].Out.Post; last != nil && len(last.Items) > 0 {
				cmds = append(cmds, []string{"--json", "show", last.SortedIDs()[0]})
			}
			c := w.At(CloneStore(w.Root, "c16full"))
			defer RemoveAll(c.Root)
			cmds = append(cmds, []string{"--json", "new", "task", "--title", "written to a full device"}, []string{"--json", "prune"})
			for _, a := range cmds {
				r := Run(Cmd{Args: a, Dir: c.Root, StdoutFull: true})
				if r.OK() {
					viol = append(viol, Violation{"C16", fmt.Sprintf("`%s` with stdout on /dev/full (no byte can be written) exits 0: it reports success without having written its JSON value (stderr %q)", strings.Join(a, " "), clip(r.Stderr, 120))})
				}
			}
			return viol
		},
	})
}

func TestC20(t *testing.T) {
	RunSeq(t, SeqCheck{
		Prop: "C20",
		Profile: Profile{Name: "results", Weights: weightsWith(map[string]int{"set": 44, "new_task": 18, "compact": 8, "prune_yes": 5, "claim": 4}),
			BadRef: 10, Spoil: 4, Results: 60, MinSteps: 6, MaxSteps: 30, RedatePct: 8},
		Rule: "random command histories in which most set / new task commands attach a result (plain, ./, a/../b, escaping, .ergo, absolute, missing paths; assorted summaries; targets from all roles) followed by state changes, reassignment, prune, repeated compact; non-trivial = a result path that needs cleaning or must be refused, or >= 2 results on one task followed by a compact" + distinctRule,
		NonTrivial: func(h []stepInfo) bool {
			if anyStep(h, func(s stepInfo) bool {
				p := s.Out.Op.ResultPath
				return p != nil && (hasOwner(s, "C20") || strings.Contains(*p, "..") || strings.HasPrefix(*p, "./"))
			}) {
				return true
			}
			for i, s := range h {
				if s.Out.Op.Kind == "compact" && s.Out.Accepted {
					for _, it := range h[i].Pre.Items {
						if len(it.Results) >= 2 {
							return true
						}
					}
				}
			}
			return false
		},
	})
}

func TestC08Seq(t *testing.T) {
	RunSeq(t, SeqCheck{
		Prop: "C08",
		Profile: Profile{Name: "readiness", Weights: weightsWith(map[string]int{"claim": 22, "sequence": 22, "set": 26, "new_task": 16, "new_epic": 8, "prune_yes": 5, "sequence_rm": 5, "plan": 3}),
			BadRef: 2, Spoil: 0, Results: 0, MinSteps: 8, MaxSteps: 32, EpicPct: 60, SeqEpicPct: 35, MixedPct: 30},
		Rule: "random command histories (real commands) weighted to sequence / claim / state changes over tasks in epics; after every step the ready / blocked flags must equal the manual's definition evaluated on the shown state, and every `claim` / `claim --epic` must return the oldest ready task or no_ready exactly when none is; non-trivial = a claim was answered while an epic edge or a task edge existed" + distinctRule,
		NonTrivial: func(h []stepInfo) bool {
			return anyStep(h, func(s stepInfo) bool {
				if s.Out.Op.Kind != "claim" || !s.Out.Accepted {
					return false
				}
				for _, it := range s.Pre.Items {
					if len(it.Deps) > 0 {
						return true
					}
				}
				return false
			})
		},
	})
}

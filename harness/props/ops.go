package props

import (
	"encoding/json"
	"fmt"
	"os"
	"path/filepath"
	"strings"
	"time"
)

// Ref names an item symbolically so that a recorded history can be replayed although
// ergo issues random ids: Op >= 0 means "the Sub-th id created by the op numbered Op",
// otherwise Lit is used literally (unknown ids, the empty string). Naming items by their
// creating op keeps references stable when a minimiser deletes other ops.
type Ref struct {
	Op  int    `json:"op"`
	Sub int    `json:"sub,omitempty"`
	Lit string `json:"lit,omitempty"`
}

func Lit(s string) Ref { return Ref{Op: -1, Lit: s} }

// PlanTask / PlanDoc describe a `plan` payload.
type PlanTask struct {
	Title *string  `json:"title,omitempty"`
	Body  *string  `json:"body,omitempty"`
	After []string `json:"after,omitempty"`
}

type PlanDoc struct {
	Title *string    `json:"title,omitempty"`
	Body  *string    `json:"body,omitempty"`
	Tasks []PlanTask `json:"tasks"`
}

// FileSpec is a file (or directory / symlink) the harness creates in the project tree
// before a command runs (result attachments).
type FileSpec struct {
	Path    string `json:"path"`
	Content string `json:"content,omitempty"`
	Kind    string `json:"kind,omitempty"` // "" file, "dir", "symlink"
	Target  string `json:"target,omitempty"`
}

// Op is one generated command, as pure data.
type Op struct {
	N    int    `json:"n"`    // number of this op within its history (stable under minimisation)
	Kind string `json:"kind"` // new_task new_epic set claim claim_id sequence sequence_rm plan prune prune_yes compact init
	Mode string `json:"mode,omitempty"`

	Target *Ref `json:"target,omitempty"`

	Title         *string `json:"title,omitempty"`
	Body          *string `json:"body,omitempty"`
	Epic          *Ref    `json:"epic,omitempty"`
	State         *string `json:"state,omitempty"`
	Claim         *string `json:"claim,omitempty"`
	ResultPath    *string `json:"result_path,omitempty"`
	ResultSummary *string `json:"result_summary,omitempty"`

	Agent      string   `json:"agent,omitempty"`
	Refs       []Ref    `json:"refs,omitempty"`
	EpicFilter *Ref     `json:"epic_filter,omitempty"`
	Plan       *PlanDoc `json:"plan,omitempty"`

	// Raw, when set, is sent on stdin instead of the encoded fields (malformed input).
	Raw *string `json:"raw,omitempty"`
	// ExtraKey adds an unknown key to the JSON object.
	ExtraKey string `json:"extra_key,omitempty"`

	Files []FileSpec `json:"files,omitempty"`

	JSONAfter bool `json:"json_after,omitempty"` // put --json after the subcommand
	Quiet     bool `json:"quiet,omitempty"`
	Verbose   bool `json:"verbose,omitempty"`
	NoJSON    bool `json:"no_json,omitempty"`

	// Fault ops (kind "fault"): Inner is the command that dies; FaultKind is "kill" (SIGKILL
	// at a system-call boundary), "tear" (the log is left with a prefix of the bytes the
	// command would have appended - what a kill inside write(2) or a full disk leaves) or
	// "tmp" (a partially written temp file of a rewrite is left behind); Frac in [0,1)
	// selects the boundary / the cut offset.
	Inner     *Op     `json:"inner,omitempty"`
	FaultKind string  `json:"fault_kind,omitempty"`
	Frac      float64 `json:"frac,omitempty"`

	// HoldLock makes the harness hold .ergo/lock (flock LOCK_EX) while the command runs.
	HoldLock bool `json:"hold_lock,omitempty"`
}

func sp(s string) *string { return &s }

func (o Op) String() string {
	b, _ := json.Marshal(o)
	return string(b)
}

// World is a store plus the bookkeeping a history needs.
type World struct {
	Root   string
	Origin map[string][2]int // id -> (creating op number, index within that op)
	ByOrig map[[2]int]string
	Pruned map[string]bool // ids that were pruned during this history
	Seen   map[string]bool // every id ever issued
	seq    int
	StepNo int
	Skewed bool // some events were re-dated: time no longer grows along the log
	NoTwin bool // faults do not set up the never-crashed twin (checks other than C03)
	// Twin, when set, is a copy of the store that was compacted at the fork point; every
	// later op is applied to both and the outcomes must agree (C05).
	Twin         *World
	TwinProp     string          // property the twin relation belongs to ("C05" or "C03")
	TouchedSince map[string]bool // main-store ids touched or created since the fork
}

func NewWorld(tag string) *World {
	return &World{Root: NewStore(tag), Pruned: map[string]bool{}, Seen: map[string]bool{}, Origin: map[string][2]int{}, ByOrig: map[[2]int]string{}}
}

func (w *World) Close() {
	RemoveAll(w.Root)
	if w.Twin != nil {
		RemoveAll(w.Twin.Root)
	}
}

func (w *World) Resolve(r Ref) string {
	if r.Op >= 0 {
		if id, ok := w.ByOrig[[2]int{r.Op, r.Sub}]; ok {
			return id
		}
		return "000000" // the creating op is gone (minimised away): an unknown id
	}
	return r.Lit
}

// AddID records an id created by op number opN.
func (w *World) AddID(id string, opN int) {
	sub := 0
	for {
		if _, used := w.ByOrig[[2]int{opN, sub}]; !used {
			break
		}
		sub++
	}
	w.ByOrig[[2]int{opN, sub}] = id
	w.Origin[id] = [2]int{opN, sub}
	w.Seen[id] = true
}

// RefOf returns the symbolic name of a known id.
func (w *World) RefOf(id string) (Ref, bool) {
	if o, ok := w.Origin[id]; ok {
		return Ref{Op: o[0], Sub: o[1]}, true
	}
	return Ref{}, false
}

// UniqueTitle returns a title no other item of this world carries.
func (w *World) UniqueTitle(prefix string) string {
	w.seq++
	return fmt.Sprintf("%s-%d", prefix, w.seq)
}

func (w *World) writeFiles(files []FileSpec) {
	for _, f := range files {
		p := filepath.Join(w.Root, f.Path)
		_ = os.MkdirAll(filepath.Dir(p), 0o755)
		switch f.Kind {
		case "dir":
			_ = os.MkdirAll(p, 0o755)
		case "symlink":
			_ = os.Remove(p)
			_ = os.Symlink(f.Target, p)
		default:
			_ = os.WriteFile(p, []byte(f.Content), 0o644)
			// a fixed mtime: the same path re-attached with new content keeps its timestamp
			// (what cp -p, rsync -t or an edit within the same clock tick do)
			fixed := time.Date(2026, 3, 4, 5, 6, 7, 0, time.UTC)
			_ = os.Chtimes(p, fixed, fixed)
		}
	}
}

// fieldsJSON encodes the task fields of op as the JSON object ergo reads from stdin.
func (w *World) fieldsJSON(op Op) string {
	m := map[string]any{}
	if op.Title != nil {
		m["title"] = *op.Title
	}
	if op.Body != nil {
		m["body"] = *op.Body
	}
	if op.Epic != nil {
		m["epic"] = w.Resolve(*op.Epic)
	}
	if op.State != nil {
		m["state"] = *op.State
	}
	if op.Claim != nil {
		m["claim"] = *op.Claim
	}
	if op.ResultPath != nil {
		m["result_path"] = *op.ResultPath
	}
	if op.ResultSummary != nil {
		m["result_summary"] = *op.ResultSummary
	}
	if op.ExtraKey != "" {
		m[op.ExtraKey] = "x"
	}
	b, _ := json.Marshal(m)
	return string(b)
}

func (w *World) fieldFlags(op Op, withBody bool) []string {
	var a []string
	if op.Title != nil {
		a = append(a, "--title", *op.Title)
	}
	if withBody && op.Body != nil {
		a = append(a, "--body", *op.Body)
	}
	if op.Epic != nil {
		a = append(a, "--epic", w.Resolve(*op.Epic))
	}
	if op.State != nil {
		a = append(a, "--state", *op.State)
	}
	if op.Claim != nil {
		a = append(a, "--claim", *op.Claim)
	}
	if op.ResultPath != nil {
		a = append(a, "--result-path", *op.ResultPath)
	}
	if op.ResultSummary != nil {
		a = append(a, "--result-summary", *op.ResultSummary)
	}
	return a
}

// Build turns an Op into a concrete command line for this world.
func (w *World) Build(op Op) Cmd {
	var global []string
	if !op.NoJSON && !op.JSONAfter {
		global = append(global, "--json")
	}
	if op.Quiet {
		global = append(global, "--quiet")
	}
	if op.Verbose {
		global = append(global, "--verbose")
	}
	if op.Agent != "" && op.Kind != "claim" && op.Kind != "claim_id" {
		global = append(global, "--agent", op.Agent)
	}
	var sub []string
	c := Cmd{Dir: w.Root}
	inputCmd := func(base ...string) {
		sub = append(sub, base...)
		switch op.Mode {
		case "flags":
			sub = append(sub, w.fieldFlags(op, true)...)
			c.Mode = StdinDevNull
		case "bodystdin":
			sub = append(sub, "--body-stdin")
			sub = append(sub, w.fieldFlags(op, false)...)
			c.Mode = StdinPipe
			if op.Body != nil {
				c.Stdin = *op.Body
			}
		default:
			c.Mode = StdinPipe
			if op.Raw != nil {
				c.Stdin = *op.Raw
			} else {
				c.Stdin = w.fieldsJSON(op)
			}
		}
	}
	switch op.Kind {
	case "new_task":
		inputCmd("new", "task")
	case "new_epic":
		inputCmd("new", "epic")
	case "set":
		inputCmd("set", w.Resolve(*op.Target))
	case "claim":
		sub = append(sub, "claim")
		if op.Agent != "" {
			sub = append(sub, "--agent", op.Agent)
		}
		if op.EpicFilter != nil {
			sub = append(sub, "--epic", w.Resolve(*op.EpicFilter))
		}
	case "claim_id":
		sub = append(sub, "claim", w.Resolve(*op.Target))
		if op.Agent != "" {
			sub = append(sub, "--agent", op.Agent)
		}
	case "sequence":
		sub = append(sub, "sequence")
		for _, r := range op.Refs {
			sub = append(sub, w.Resolve(r))
		}
	case "sequence_rm":
		sub = append(sub, "sequence", "rm")
		for _, r := range op.Refs {
			sub = append(sub, w.Resolve(r))
		}
	case "plan":
		sub = append(sub, "plan")
		c.Mode = StdinPipe
		if op.Raw != nil {
			c.Stdin = *op.Raw
		} else {
			b, _ := json.Marshal(op.Plan)
			c.Stdin = string(b)
		}
	case "prune":
		sub = append(sub, "prune")
	case "prune_yes":
		sub = append(sub, "prune", "--yes")
	case "compact":
		sub = append(sub, "compact")
	case "init":
		sub = append(sub, "init")
	case "fork_compact":
		sub = append(sub, "compact") // executed on the twin only
	case "fault":
		return w.Build(*op.Inner)
	case "chop_newline", "debris", "redate":
		sub = append(sub, "list") // never executed
	default:
		panic("unknown op kind " + op.Kind)
	}
	if !op.NoJSON && op.JSONAfter {
		sub = append(sub, "--json")
	}
	c.Args = append(global, sub...)
	return c
}

// IsMutation says whether the op can change the store when it succeeds.
func (o Op) IsMutation() bool {
	switch o.Kind {
	case "prune", "init", "chop_newline", "debris", "redate":
		return false
	}
	return true
}

func trimmedTitle(s string) string { return strings.TrimSpace(s) }

// At returns a view of this world's bookkeeping over a copy of the store at root.
func (w *World) At(root string) *World {
	c := *w
	c.Root = root
	c.Twin = nil
	return &c
}

package props

import (
	"fmt"
	"os"
	"strings"
)

// newTwinFrom makes a twin world over a copy of root (bookkeeping shared by value).
func (w *World) newTwin(prop string) *World {
	if w.Twin != nil {
		RemoveAll(w.Twin.Root)
	}
	tw := &World{Root: CloneStore(w.Root, "twin"), Pruned: map[string]bool{}, Seen: map[string]bool{}, Origin: map[string][2]int{}, ByOrig: map[[2]int]string{}}
	for id, o := range w.Origin {
		tw.Origin[id], tw.ByOrig[o] = o, id
	}
	for id := range w.Seen {
		tw.Seen[id] = true
	}
	for id := range w.Pruned {
		tw.Pruned[id] = true
	}
	w.Twin, w.TouchedSince, w.TwinProp = tw, map[string]bool{}, prop
	return tw
}

// stepFault makes a command die on the real store (C03): by SIGKILL at a chosen
// system-call boundary, by leaving a torn tail, or by leaving a partial temp file.
// Afterwards every read must succeed, everything the interrupted command did not touch
// must be exactly as before, and a "never-crashed" twin is set up: a copy of the store
// whose log holds the complete lines only. Every later command runs on both and must
// agree.
func (w *World) stepFault(pre *Snapshot, op Op) StepOut {
	inner := *op.Inner
	inner.N = op.N
	out := StepOut{Op: op, Cmd: w.Build(inner), Decision: "FAULT", Post: pre, Accepted: true}
	bad := func(f string, a ...any) { out.Viol = append(out.Viol, Violation{"C03", fmt.Sprintf(f, a...)}) }
	w.writeFiles(inner.Files) // the model looks at the files a result names
	if w.Predict(pre, inner).Decision == MustReject {
		out.Labels = append(out.Labels, "fault.skipped.rejected")
		return out
	}
	// what would an undisturbed run do? (on a copy)
	full := w.At(CloneStore(w.Root, "full"))
	defer RemoveAll(full.Root)
	full.writeFiles(inner.Files)
	base := StraceRun(full.Build(inner), full.Root, nil)
	if !base.Res.OK() {
		out.Labels = append(out.Labels, "fault.skipped.fails")
		return out
	}
	postF, err := TakeSnapshot(full.Root)
	if err != nil {
		bad("store unreadable after an undisturbed %s: %v", inner.Kind, err)
		return out
	}
	touched := map[string]bool{}
	for id := range pre.Items {
		if p := postF.Items[id]; p == nil || len(diffItem(pre.Items[id], p, DiffOpts{})) > 0 {
			touched[id] = true
		}
	}
	logBefore := ReadLog(w.Root)
	logAfterFull := ReadLog(full.Root)
	w.writeFiles(inner.Files)
	desc := ""
	switch op.FaultKind {
	case "tear":
		if !strings.HasPrefix(string(logAfterFull), string(logBefore)) || len(logAfterFull) <= len(logBefore)+1 {
			out.Labels = append(out.Labels, "fault.skipped.not-an-append")
			return out
		}
		appended := logAfterFull[len(logBefore):]
		// cut offsets: a third of the time one of the edges (first byte, just before the final
		// brace, just before the final newline, between two lines of a batch), else anywhere
		j := 1 + int(op.Frac*float64(len(appended)-1))
		if k := int(op.Frac*1000) % 9; k < 3 {
			edges := []int{1, len(appended) - 2, len(appended) - 1}
			if nl := strings.IndexByte(string(appended), '\n'); nl >= 0 && nl+1 < len(appended) {
				edges = append(edges, nl, nl+1)
			}
			j = edges[int(op.Frac*7919)%len(edges)]
		}
		if j >= len(appended) {
			j = len(appended) - 1
		}
		if j < 1 {
			j = 1
		}
		f, err := os.OpenFile(LogPath(w.Root), os.O_APPEND|os.O_WRONLY, 0o644)
		if err != nil {
			out.Abort = "cannot open log: " + err.Error()
			return out
		}
		_, _ = f.Write(appended[:j])
		f.Close()
		desc = fmt.Sprintf("torn append: %d of %d bytes of `%s` reached the log", j, len(appended), strings.Join(out.Cmd.Args, " "))
		out.Labels = append(out.Labels, "fault.tear")
		if j < len(appended)-1 {
			out.Labels = append(out.Labels, "fault.midwrite")
		}
	case "tmp":
		tmp := LogPath(w.Root) + ".tmp"
		j := int(op.Frac * float64(len(logAfterFull)))
		content := logAfterFull[:j]
		if int(op.Frac*1000)%4 == 0 {
			// the complete output of a larger rewrite that died just before its rename
			content = append(append([]byte{}, logAfterFull...), logAfterFull...)
			j = len(content)
		}
		_ = os.WriteFile(tmp, content, 0o644)
		desc = fmt.Sprintf("temp file (%d bytes; the rewrite's full output is %d) left behind by a killed rewrite", j, len(logAfterFull))
		out.Labels = append(out.Labels, "fault.tmp", "fault.midwrite")
	default:
		points := KillPoints(base.Calls)
		if len(points) == 0 {
			out.Labels = append(out.Labels, "fault.skipped.nopoints")
			return out
		}
		inj := points[int(op.Frac*float64(len(points)))%len(points)]
		kr := StraceRun(w.Build(inner), w.Root, &inj)
		desc = fmt.Sprintf("`%s` killed: %s (%s)", strings.Join(out.Cmd.Args, " "), inj, describeKill(base.Calls, len(kr.Calls)))
		out.Labels = append(out.Labels, "fault.kill")
		first, last := firstLastMutating(base.Calls)
		if kr.Killed && first >= 0 && len(kr.Calls) > first && len(kr.Calls) <= last {
			out.Labels = append(out.Labels, "fault.midwrite")
		}
		if !kr.Killed {
			out.Labels = append(out.Labels, "fault.kill.missed")
		}
	}
	out.Stderr = desc
	// (i) reads succeed, (iv) the lock is free
	post, err := TakeSnapshot(w.Root)
	if err != nil {
		bad("after %s the store cannot be read: %v", desc, err)
		out.Post = nil
		return out
	}
	out.Post = post
	for _, inc := range post.Inconsistent {
		bad("after %s: %s", desc, inc)
	}
	// (iii) acknowledged work the command did not touch is intact
	for id, it := range pre.Items {
		if touched[id] {
			continue
		}
		p := post.Items[id]
		if p == nil {
			bad("after %s item %s (untouched by the command) is gone", desc, id)
			continue
		}
		for _, d := range diffItem(it, p, DiffOpts{}) {
			if strings.Contains(d, " ready ") || strings.Contains(d, " blocked ") || strings.Contains(d, " rdeps ") {
				continue // derived from items the command did touch
			}
			bad("after %s an item the command did not touch changed: %s", desc, d)
		}
	}
	// bookkeeping: items the dying command managed to create
	for _, id := range post.SortedIDs() {
		if pre.Items[id] == nil && !w.Seen[id] {
			w.AddID(id, op.N)
			out.NewIDs = append(out.NewIDs, id)
		}
	}
	for id := range pre.Items {
		if post.Items[id] == nil {
			w.Pruned[id] = true
		}
	}
	if w.NoTwin {
		return out
	}
	// (ii) the never-crashed twin: same store, log = complete lines only, no temp files
	tw := w.newTwin("C03")
	if err := os.WriteFile(LogPath(tw.Root), cleanLog(ReadLog(w.Root)), 0o644); err != nil {
		out.Abort = "cannot write twin log"
		return out
	}
	removeTmpFiles(tw.Root)
	snapT, err := TakeSnapshot(tw.Root)
	if err != nil {
		out.Abort = "clean twin unreadable: " + err.Error()
		return out
	}
	for _, d := range DiffSnap(post, snapT, DiffOpts{RootA: w.Root, RootB: tw.Root}) {
		bad("after %s reads do not show the state after the complete log lines: %s", desc, d)
	}
	return out
}

package props

import (
	"encoding/json"
	"fmt"
	"os"
	"strconv"
	"strings"
	"testing"
	"time"

	"pgregory.net/rapid"
)

// CrashCase is a replayable case of the CRASH engine.
type CrashCase struct {
	Property   string      `json:"property"`
	Engine     string      `json:"engine"`
	Test       string      `json:"test"`
	Setup      []Op        `json:"setup"`
	Target     Op          `json:"target"`
	Inject     *Inject     `json:"inject,omitempty"`
	Bulk       []int       `json:"bulk,omitempty"` // bulk world: epics, tasks per epic, tasks left open
	Legacy     bool        `json:"legacy_name,omitempty"`
	Symlink    bool        `json:"log_is_a_symlink,omitempty"`
	Violations []Violation `json:"violations,omitempty"`
	Trace      []string    `json:"trace,omitempty"`
}

// crashAllowRejected lets the kill enumeration run on commands that the rules reject (or
// that fail): for them the state before and the state after are the same state.
var crashAllowRejected bool

// crashEmptyStorePct: percent of instances whose store is freshly initialised.
var crashEmptyStorePct int

// crashExtraSetup, when set, appends a fixed structure to the setup history.
var crashExtraSetup func(rt *rapid.T, base int) []Op

// crashSetupProfile is the profile of the setup histories of the kill enumeration.
var crashSetupProfile = &setupProfile

type crashOutcome struct {
	skipped    string
	points     int
	killed     int
	nontrivial []string
	viol       []Violation
	failing    *Inject
	trace      []string
	kind       string
	// followUps counts the unrelated commands run after a kill; followUpFailed those that
	// exited non-zero (not judged here: C03 owns "later mutations succeed")
	followUps      int
	followUpFailed int
}

// runAtomicity executes the C04 experiment for one command instance: every kill point
// (or only `only`) must leave the store observably equal to the state before the
// command or to the state after an undisturbed run.
func runAtomicity(w *World, pre *Snapshot, target Op, only *Inject) crashOutcome {
	return runAtomicityFor("C04", w, pre, target, only)
}

func runAtomicityFor(prop string, w *World, pre *Snapshot, target Op, only *Inject) crashOutcome {
	var oc crashOutcome
	oc.kind = target.Kind + "/" + fieldSig(target)
	w.writeFiles(target.Files) // the model looks at the files a result names
	if w.Predict(pre, target).Decision == MustReject && !crashAllowRejected {
		oc.skipped = "model rejects the command"
		return oc
	}
	full := w.At(CloneStore(w.Root, "full"))
	defer RemoveAll(full.Root)
	full.writeFiles(target.Files)
	base := StraceRun(full.Build(target), full.Root, nil)
	if !base.Res.OK() && !crashAllowRejected {
		oc.skipped = "command fails without any fault: " + clip(base.Res.Stderr, 120)
		return oc
	}
	postF, err := TakeSnapshot(full.Root)
	if err != nil {
		oc.viol = append(oc.viol, Violation{prop, "store unreadable after an undisturbed run: " + err.Error()})
		return oc
	}
	cPre := CanonSnap(pre, pre, w.Root)
	cPost := CanonSnap(postF, pre, full.Root)
	if !base.Res.OK() {
		oc.kind = "rejected:" + oc.kind
		if d := canonDiff(cPost, cPre); len(d) > 0 {
			oc.skipped = "the failing command changes the store even when nothing disturbs it (C10 owns that)"
			return oc
		}
	}
	first, last := firstLastMutating(base.Calls)
	points := KillPoints(base.Calls)
	if only != nil {
		points = []Inject{*only}
	}
	for _, c := range base.Calls {
		oc.trace = append(oc.trace, c.String())
	}
	for _, inj := range points {
		inj := inj
		k := w.At(CloneStore(w.Root, "kill"))
		k.writeFiles(target.Files)
		out := StraceRun(k.Build(target), k.Root, &inj)
		oc.points++
		if out.Killed {
			oc.killed++
		}
		snapK, err := TakeSnapshot(k.Root)
		if err != nil {
			oc.viol = append(oc.viol, Violation{prop, fmt.Sprintf("after %s the store cannot be read: %v", inj, err)})
			oc.failing = &inj
			RemoveAll(k.Root)
			return oc
		}
		cK := CanonSnap(snapK, pre, k.Root)
		dPre, dPost := canonDiff(cK, cPre), canonDiff(cK, cPost)
		completed := len(out.Calls)
		if out.Killed && first >= 0 && completed > first && completed <= last {
			oc.nontrivial = append(oc.nontrivial, fmt.Sprintf("%s@%d/%d", oc.kind, completed, len(base.Calls)))
		}
		if !out.Killed && len(dPost) > 0 {
			oc.viol = append(oc.viol, Violation{prop, fmt.Sprintf("run with %s was not killed, yet differs from the undisturbed run: %s", inj, strings.Join(dPost, "; "))})
			oc.failing = &inj
		} else if len(dPre) > 0 && len(dPost) > 0 {
			d := dPre
			which := "state before"
			if len(dPost) < len(dPre) {
				d, which = dPost, "state after"
			}
			oc.viol = append(oc.viol, Violation{prop, fmt.Sprintf("after %s (%s) the store is neither the state before nor the state after the command; nearest is the %s: %s", inj, describeKill(base.Calls, completed), which, clip(strings.Join(d, "; "), 600))})
			oc.failing = &inj
		}
		if oc.failing == nil {
			// the crash is over, life goes on: one further, unrelated command must leave
			// everything else as the kill left it (what the dead process left lying around -
			// a half-written temp file, say - must not come into effect later)
			title := "after the crash " + strconv.Itoa(oc.points)
			fr := Run(Cmd{Args: []string{"--json", "new", "task", "--title", title}, Dir: k.Root, Mode: StdinDevNull})
			oc.followUps++
			if snap2, err := TakeSnapshot(k.Root); err != nil {
				oc.viol = append(oc.viol, Violation{prop, fmt.Sprintf("after %s and one further command (`new task`, exit %d) the store cannot be read: %v", inj, fr.Code, err)})
				oc.failing = &inj
			} else if fr.OK() {
				c2 := CanonSnap(snap2, pre, k.Root)
				delete(c2, "new:"+title)
				if d := canonDiff(c2, cK); len(d) > 0 {
					oc.viol = append(oc.viol, Violation{prop, fmt.Sprintf("after %s (%s) the store showed the state %s the command; one unrelated `new task` later it shows neither: %s", inj, describeKill(base.Calls, completed), map[bool]string{true: "before", false: "after"}[len(dPre) == 0], clip(strings.Join(d, "; "), 600))})
					oc.failing = &inj
				}
			} else {
				oc.followUpFailed++
			}
		}
		RemoveAll(k.Root)
		if oc.failing != nil {
			return oc
		}
	}
	return oc
}

func replayCrash(t *testing.T, path string, run func(w *World, pre *Snapshot, cc CrashCase) crashOutcome) {
	b, err := os.ReadFile(path)
	if err != nil {
		t.Fatalf("cannot read replay %s: %v", path, err)
	}
	var cc CrashCase
	if err := json.Unmarshal(b, &cc); err != nil {
		t.Fatalf("bad replay file: %v", err)
	}
	w := NewWorld("crash-replay")
	defer w.Close()
	pre, err := TakeSnapshot(w.Root)
	if err != nil {
		t.Fatal(err)
	}
	for _, op := range cc.Setup {
		out := w.Step(pre, op)
		if out.Post == nil {
			t.Fatalf("setup failed: %v", out.Viol)
		}
		pre = out.Post
	}
	if cc.Legacy {
		schedPre{Legacy: true}.apply(w.Root)
	}
	if cc.Symlink {
		schedPre{SymlinkLog: true}.apply(w.Root)
	}
	oc := run(w, pre, cc)
	if oc.skipped != "" {
		t.Logf("instance skipped: %s", oc.skipped)
	}
	t.Logf("kill points tried: %d, kills landed: %d, follow-up commands: %d", oc.points, oc.killed, oc.followUps)
	for _, l := range oc.trace {
		t.Log(l)
	}
	if len(oc.viol) > 0 {
		t.Fatalf("REPLAY-VIOLATION %s: %v", cc.Property, oc.viol)
	}
}

func runCrashTest(t *testing.T, prop, test, rule string, gen func(rt *rapid.T, w *World, pre *Snapshot) Op) {
	if err := StraceAvailable(); err != nil {
		t.Skipf("INFRA: %v", err)
	}
	if p := os.Getenv("VERIF_REPLAY_IN"); p != "" {
		replayCrash(t, p, func(w *World, pre *Snapshot, cc CrashCase) crashOutcome {
			return runAtomicityFor(prop, w, pre, cc.Target, cc.Inject)
		})
		return
	}
	if os.Getenv("VERIF_MINIMIZE_IN") != "" {
		return
	}
	stats := NewStats(prop, "CRASH/atomicity", rule)
	defer stats.Flush()
	deadline := budgetDeadline()
	replayPath := ReplayOutPath(prop)
	rapid.Check(t, func(rt *rapid.T) {
		if !deadline.IsZero() && time.Now().After(deadline) {
			stats.Shortfall = "wall-clock guard reached before all requested instances ran"
			return
		}
		w := NewWorld(prop)
		defer w.Close()
		nsetup := between(rt, 2, 9, "setup.n")
		if crashEmptyStorePct > 0 && pct(rt, crashEmptyStorePct, "setup.empty") {
			nsetup = 0 // the command is the first one the store ever sees
			stats.Label("store_empty_before_the_command")
		}
		var setup []Op
		pre, ok := func() (*Snapshot, bool) {
			pre, err := TakeSnapshot(w.Root)
			if err != nil {
				return nil, false
			}
			for i := 0; i < nsetup; i++ {
				op := genOp(rt, w, pre, *crashSetupProfile)
				if i == nsetup-1 && pct(rt, 8, "setup.big") {
					// a log larger than the 64 KiB windows readers and rewriters work with
					op = Op{Kind: "new_task", Mode: "bodystdin", Title: sp(w.UniqueTitle("big")), Body: sp(bigBody(between(rt, 66000, 150000, "setup.bigsize")))}
				}
				op.N = i
				setup = append(setup, op)
				out := w.Step(pre, op)
				if out.Post == nil || out.Abort != "" || len(out.Viol) > 0 {
					return nil, false
				}
				pre = out.Post
			}
			return pre, true
		}()
		if ok && crashExtraSetup != nil {
			for _, op := range crashExtraSetup(rt, 100) {
				setup = append(setup, op)
				out := w.Step(pre, op)
				if out.Post == nil || out.Abort != "" || len(out.Viol) > 0 {
					ok = false
					break
				}
				pre = out.Post
			}
		}
		if !ok {
			stats.Abort("setup history hit a violation of another property")
			return
		}
		legacy := pct(rt, 15, "legacy")
		if legacy {
			schedPre{Legacy: true}.apply(w.Root)
			stats.Label("legacy_file_name")
		}
		symlink := pct(rt, 8, "symlink")
		if symlink {
			schedPre{SymlinkLog: true}.apply(w.Root)
			stats.Label("log_is_a_symlink")
		}
		target := gen(rt, w, pre)
		target.N = len(setup)
		oc := runAtomicityFor(prop, w, pre, target, nil)
		if len(oc.viol) > 0 {
			WriteReplay(replayPath, CrashCase{Property: prop, Engine: "CRASH", Test: test, Setup: setup, Target: target, Inject: oc.failing, Violations: oc.viol, Trace: oc.trace, Legacy: legacy, Symlink: symlink})
			rt.Fatalf("%s violated: %v", prop, oc.viol)
		}
		stats.Eval()
		if oc.skipped != "" {
			stats.Label("instance.skipped")
			return
		}
		stats.Label("cmd." + target.Kind)
		if strings.HasPrefix(oc.kind, "rejected:") {
			stats.Label("target.rejected_or_failing")
			stats.NonTrivial(fmt.Sprintf("%s/%d", oc.kind, oc.points))
			if target.Epic != nil && target.Title != nil && target.Kind == "set" {
				stats.Label("target.epic_move_closing_a_waits_for_cycle")
			}
		}
		stats.EvalN(oc.points) // every killed re-run is an execution
		stats.LabelN("kill_points", oc.points)
		stats.LabelN("kills_landed", oc.killed)
		stats.LabelN("follow_up_commands_after_a_kill", oc.followUps)
		stats.LabelN("follow_up_commands_that_failed", oc.followUpFailed)
		for _, n := range oc.nontrivial {
			stats.NonTrivial(n)
		}
		stats.LabelN("kills_between_first_and_last_write", len(oc.nontrivial))
		stats.Sample(oc.points, map[string]any{"setup": len(setup), "command": strings.Join(w.Build(target).Args, " "), "stdin": clip(w.Build(target).Stdin, 200), "syscalls_on_store": oc.trace, "kill_points_tried": oc.points})
	})
}

func TestC04(t *testing.T) {
	runCrashTest(t, "C04", "TestC04", "for a generated store (short random history) and a generated multi-event command (claim, claim <id>, set with 2-5 fields incl. bodies > 4 KiB, create with state/claim/result, sequence of >= 3, prune of >= 2 items, plan, compact) the command is re-run on a fresh copy once per system call it issues on the store's files, killed by SIGKILL exactly before that call (strace injection); after each kill the observable state must equal the state before the command or the state after an undisturbed run; non-trivial = the kill landed after the command's first and before its last mutating call; distinct = (command shape, kill position)", genMultiEventOp)
}

// TestC04Rejected: a command the rules reject records nothing - also when it is killed at
// any point on its way to saying so. Multi-field requests that fail late (an epic move that
// would close a waits-for cycle, a sequence whose last edge is illegal, a result next to an
// illegal state) are the ones an "append first, take it back on error" shortcut breaks.
func TestC04Rejected(t *testing.T) {
	crashAllowRejected = true
	two := Profile{Name: "two-level-setup", Weights: map[string]int{"new_task": 44, "new_epic": 22, "sequence": 16, "set": 10, "plan": 3}, EpicPct: 80, StatePct: 8, ClaimPct: 4, SeqEpicPct: 40}
	crashSetupProfile = &two
	crashExtraSetup = func(rt *rapid.T, base int) []Op {
		if !pct(rt, 60, "extra.structure") {
			return nil
		}
		// epic E2 after epic E1, task A in E1 after a free task B: moving B into E2 (or
		// making B wait for a task of E2) would close a waits-for cycle
		e1, e2, a, b := Ref{Op: base}, Ref{Op: base + 1}, Ref{Op: base + 3}, Ref{Op: base + 4}
		return []Op{
			{N: base, Kind: "new_epic", Mode: "json", Title: sp("first epic")},
			{N: base + 1, Kind: "new_epic", Mode: "json", Title: sp("second epic")},
			{N: base + 2, Kind: "sequence", Refs: []Ref{e1, e2}},
			{N: base + 3, Kind: "new_task", Mode: "json", Title: sp("in the first epic"), Epic: &e1},
			{N: base + 4, Kind: "new_task", Mode: "json", Title: sp("free task")},
			{N: base + 5, Kind: "sequence", Refs: []Ref{b, a}},
		}
	}
	runCrashTest(t, "C04", "TestC04Rejected", "for a generated two-level store and a generated multi-field command that the rules reject or that fails late (an epic move / a dependency that would close a waits-for cycle together with title and body, a chain whose last edge is illegal, fields next to an illegal transition, a result that must be refused), the command is re-run on a fresh copy once per system call it issues on the store's files and killed exactly before that call; for a rejected command before and after are the same state, so after each kill (and after one further unrelated command) the store must show exactly the state before; non-trivial = the undisturbed run of the command really fails (plus, as everywhere, kills between a first and a last mutating call, if it makes any); distinct = (command shape, number of kill points)", func(rt *rapid.T, w *World, pre *Snapshot) Op {
		g := refGen{rt, w, pre}
		if pct(rt, 55, "rej.cycle") {
			if task, epic := genWaitCycleMove(rt, g); task != nil {
				op := Op{Kind: "set", Mode: oneOf(rt, []string{"json", "flags"}, "mode"), Target: task, Epic: epic, Title: sp(w.UniqueTitle("moved")), Agent: "a1"}
				if pct(rt, 60, "rej.body") {
					op.Body = sp(bigBody(between(rt, 200, 6000, "rej.bodysize")))
				}
				return op
			}
			if refs := genWaitCycleEdge(rt, g); refs != nil {
				return Op{Kind: "sequence", Refs: refs}
			}
		}
		op := genOp(rt, w, pre, Profile{Name: "rejected", Weights: map[string]int{"set": 50, "new_task": 25, "sequence": 15, "plan": 10}, BadRef: 30, Spoil: 45, Results: 25, StatePct: 60, ClaimPct: 30})
		return op
	})
}

func TestC11Crash(t *testing.T) {
	crashEmptyStorePct = 18
	runCrashTest(t, "C11", "TestC11Crash", "generated stores and generated valid plan documents (2-15 tasks, random DAG); the plan command is re-run on a fresh copy once per system call it issues on the store's files and killed by SIGKILL exactly before that call; after each kill the store must show either nothing of the plan or the whole plan; non-trivial = the kill landed after the command's first and before its last mutating call; distinct = (plan shape, kill position)", func(rt *rapid.T, w *World, pre *Snapshot) Op {
		return Op{Kind: "plan", Plan: genRichPlan(rt, w)}
	})
}

func genFaultOp(rt *rapid.T, w *World, pre *Snapshot, prof Profile) Op {
	if w.StepNo == 1 && pct(rt, 15, "c03.big") {
		// a log larger than the 64 KiB windows readers and repair code work with
		return Op{Kind: "new_task", Mode: "bodystdin", Title: sp(w.UniqueTitle("big")), Body: sp(bigBody(between(rt, 66000, 210000, "c03.bigsize")))}
	}
	if (w.StepNo >= 2 && pct(rt, 30, "fault?")) || (w.StepNo < 2 && pct(rt, 12, "fault.early?")) {
		var inner Op
		if pct(rt, 60, "fault.multi") {
			inner = genMultiEventOp(rt, w, pre)
		} else {
			inner = genOp(rt, w, pre, Profile{Name: "inner", Weights: map[string]int{"new_task": 30, "new_epic": 8, "set": 30, "claim": 10, "sequence": 10, "plan": 8, "compact": 8, "prune_yes": 6}, Results: 10})
		}
		if (inner.Kind == "new_task" || inner.Kind == "set") && inner.Mode != "flags" && pct(rt, 12, "fault.bigbody") {
			inner.Body = sp(bigBody(between(rt, 66000, 200000, "fault.bigsize")))
		}
		kind := oneOf(rt, []string{"kill", "kill", "tear", "tear", "tear", "tmp"}, "fault.kind")
		if kind == "tmp" && inner.Kind != "plan" && inner.Kind != "compact" {
			kind = "tear"
		}
		return Op{Kind: "fault", Inner: &inner, FaultKind: kind, Frac: float64(uni(rt, 1000, "fault.frac")) / 1000}
	}
	return genOp(rt, w, pre, prof)
}

func TestC03(t *testing.T) {
	if err := StraceAvailable(); err != nil {
		t.Skipf("INFRA: %v", err)
	}
	RunSeq(t, SeqCheck{
		Prop: "C03",
		Profile: Profile{Name: "crash-sequences", Weights: weightsWith(map[string]int{"new_task": 22, "set": 28, "claim": 8, "plan": 6, "compact": 7, "prune_yes": 5, "sequence": 8}),
			BadRef: 3, Spoil: 3, Results: 8, MinSteps: 6, MaxSteps: 22},
		GenOp: genFaultOp,
		Rule:  "random histories that alternate ordinary commands with commands that die: killed by SIGKILL at a drawn system-call boundary (strace), cut inside their log write at a drawn byte offset (torn tail), or leaving a partial temp file; after each fault all reads must succeed, untouched items must be unchanged, reads must show the state after the complete lines, and every later command must behave on the crashed store exactly as on a never-crashed copy; non-trivial = a fault strictly inside the write phase followed by >= 1 accepted mutation" + distinctRule,
		NonTrivial: func(h []stepInfo) bool {
			for i, s := range h {
				mid := false
				for _, l := range s.Out.Labels {
					if l == "fault.midwrite" {
						mid = true
					}
				}
				if mid && anyStep(h[i+1:], func(x stepInfo) bool {
					return x.Out.Op.Kind != "fault" && x.Out.Accepted && x.Out.Op.IsMutation()
				}) {
					return true
				}
			}
			return false
		},
	})
}

// runBulkPruneCrash: prune --yes of > 60 items under kill enumeration. The observable
// state after a kill must be the state before or after; in particular no task may be left
// pointing at a pruned epic.
func runBulkPruneCrash(t *testing.T, prop, test string) {
	if err := StraceAvailable(); err != nil {
		t.Skipf("INFRA: %v", err)
	}
	if os.Getenv("VERIF_MINIMIZE_IN") != "" {
		return
	}
	if p := os.Getenv("VERIF_REPLAY_IN"); p != "" {
		b, _ := os.ReadFile(p)
		var cc CrashCase
		if err := json.Unmarshal(b, &cc); err != nil || len(cc.Bulk) != 3 {
			t.Fatalf("bad replay file")
		}
		w := NewWorld(prop + "bulk-replay")
		defer w.Close()
		pre, ok := bulkPruneWorld(w, cc.Bulk[0], cc.Bulk[1], cc.Bulk[2])
		if !ok {
			t.Fatalf("bulk world could not be built")
		}
		if oc := runAtomicityFor(prop, w, pre, cc.Target, cc.Inject); len(oc.viol) > 0 {
			t.Fatalf("REPLAY-VIOLATION %s: %v", prop, oc.viol)
		}
		return
	}
	stats := NewStats(prop, "CRASH/bulk-prune", "stores with 18-170 finished tasks spread over 3-12 epics (built by plans, marked done) and a few open ones; `prune --yes` (for C04 / C14 in a third of the cases `compact`) is killed by SIGKILL before each system call it issues on the store's files; after each kill the store must show the state before or the state after - never some items pruned and others not, never a live task under a pruned epic; non-trivial = more than 64 items are pruned (or the command is compact) and the kill landed between the first and last mutating call; distinct = (sizes, kill position)")
	defer stats.Flush()
	replayPath := ReplayOutPath(prop)
	rapid.Check(t, func(rt *rapid.T) {
		w := NewWorld(prop + "bulk")
		defer w.Close()
		bulk := []int{between(rt, 3, 12, "bulk.epics"), between(rt, 6, 14, "bulk.per"), between(rt, 0, 5, "bulk.keep")}
		pre, ok := bulkPruneWorld(w, bulk[0], bulk[1], bulk[2])
		if !ok {
			stats.Abort("bulk world could not be built")
			return
		}
		target := Op{Kind: "prune_yes", N: 900}
		if prop != "C09" && pct(rt, 35, "bulk.compact") {
			// the other command that rewrites many items at once: a compaction of a log far
			// larger than one buffered write
			target = Op{Kind: "compact", N: 900}
			stats.Label("target.compact")
		}
		oc := runAtomicityFor(prop, w, pre, target, nil)
		if len(oc.viol) > 0 {
			for _, v := range CheckInvariants(pre) {
				_ = v
			}
			WriteReplay(replayPath, CrashCase{Property: prop, Engine: "CRASH", Test: test, Target: target, Inject: oc.failing, Violations: oc.viol, Trace: oc.trace, Bulk: bulk})
			rt.Fatalf("%s violated: %v", prop, oc.viol)
		}
		stats.Eval()
		stats.EvalN(oc.points) // every killed re-run is an execution
		stats.LabelN("kill_points", oc.points)
		stats.LabelN("items_in_store", len(pre.Items))
		if len(PruneSet(pre)) > 64 || target.Kind == "compact" {
			if target.Kind != "compact" {
				stats.Label("prunes_more_than_64_items")
			}
			for _, n := range oc.nontrivial {
				stats.NonTrivial(fmt.Sprintf("%d:%s", len(pre.Items), n))
			}
		}
		stats.Sample(len(pre.Items), map[string]any{"items": len(pre.Items), "to_prune": len(PruneSet(pre)), "kill_points": oc.points, "syscalls_on_store": oc.trace})
	})
}

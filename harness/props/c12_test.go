package props

import (
	"encoding/base64"
	"encoding/json"
	"fmt"
	"os"
	"path/filepath"
	"regexp"
	"sort"
	"strings"
	"testing"
	"time"

	"pgregory.net/rapid"
)

// C12: state is a total function of the log; reads are pure; history only grows.

// LogCase is the replay format: the exact file content plus the ids to aim commands at.
type LogCase struct {
	Property   string      `json:"property"`
	Engine     string      `json:"engine"`
	Test       string      `json:"test"`
	FileB64    string      `json:"file_b64"`
	Legacy     bool        `json:"legacy_name,omitempty"` // store the file as events.jsonl
	IDs        []string    `json:"ids"`
	Mutations  []string    `json:"mutations"`
	Violations []Violation `json:"violations,omitempty"`
	Preview    string      `json:"file_preview,omitempty"`
	// StaleTmp: per mille of the file's bytes that lie next to it as <log>.tmp, the
	// leftover of a killed rewrite (0 = none)
	StaleTmp int `json:"stale_tmp_permille,omitempty"`
}

// ---- mutators ----

type logMutator struct {
	name string
	f    func(t *rapid.T, b []byte) []byte
}

func splitKeep(b []byte) []string {
	var out []string
	s := string(b)
	for len(s) > 0 {
		i := strings.IndexByte(s, '\n')
		if i < 0 {
			out = append(out, s)
			break
		}
		out = append(out, s[:i+1])
		s = s[i+1:]
	}
	return out
}

func mutateJSONLine(t *rapid.T, line string, f func(top map[string]any)) string {
	nl := strings.HasSuffix(line, "\n")
	var top map[string]any
	if json.Unmarshal([]byte(strings.TrimSpace(line)), &top) != nil {
		return line
	}
	f(top)
	b, _ := json.Marshal(top)
	if nl {
		return string(b) + "\n"
	}
	return string(b)
}

func setTimes(v any, ts string) any {
	switch x := v.(type) {
	case map[string]any:
		for k, e := range x {
			x[k] = setTimes(e, ts)
		}
		return x
	case string:
		if isTimeString(x) {
			return ts
		}
	}
	return v
}

var logMutators = []logMutator{
	{"truncate-at-byte", func(t *rapid.T, b []byte) []byte {
		if len(b) == 0 {
			return b
		}
		return b[:uni(t, len(b), "cut")]
	}},
	{"truncate-last-line", func(t *rapid.T, b []byte) []byte {
		ls := splitKeep(b)
		if len(ls) == 0 {
			return b
		}
		last := ls[len(ls)-1]
		return []byte(strings.Join(ls[:len(ls)-1], "") + last[:uni(t, len(last), "cut")])
	}},
	{"bit-flip", func(t *rapid.T, b []byte) []byte {
		if len(b) == 0 {
			return b
		}
		c := append([]byte{}, b...)
		for n := between(t, 1, 3, "flips"); n > 0; n-- {
			c[uni(t, len(c), "pos")] ^= 1 << uint(uni(t, 8, "bit"))
		}
		return c
	}},
	{"duplicate-line", func(t *rapid.T, b []byte) []byte {
		ls := splitKeep(b)
		if len(ls) == 0 {
			return b
		}
		i := uni(t, len(ls), "line")
		j := uni(t, len(ls)+1, "at")
		ls = append(ls[:j], append([]string{ls[i]}, ls[j:]...)...)
		return []byte(strings.Join(ls, ""))
	}},
	{"delete-line", func(t *rapid.T, b []byte) []byte {
		ls := splitKeep(b)
		if len(ls) == 0 {
			return b
		}
		i := uni(t, len(ls), "line")
		return []byte(strings.Join(append(ls[:i:i], ls[i+1:]...), ""))
	}},
	{"shuffle-lines", func(t *rapid.T, b []byte) []byte {
		ls := splitKeep(b)
		if len(ls) < 2 {
			return b
		}
		if !strings.HasSuffix(ls[len(ls)-1], "\n") {
			ls[len(ls)-1] += "\n"
		}
		return []byte(strings.Join(rapid.Permutation(ls).Draw(t, "perm"), ""))
	}},
	{"swap-adjacent-lines", func(t *rapid.T, b []byte) []byte {
		ls := splitKeep(b)
		if len(ls) < 2 {
			return b
		}
		i := uni(t, len(ls)-1, "line")
		if !strings.HasSuffix(ls[i+1], "\n") {
			ls[i+1] += "\n"
		}
		ls[i], ls[i+1] = ls[i+1], ls[i]
		return []byte(strings.Join(ls, ""))
	}},
	{"conflict-markers", func(t *rapid.T, b []byte) []byte {
		ls := splitKeep(b)
		i := uni(t, len(ls)+1, "at")
		marker := oneOf(t, []string{"<<<<<<< HEAD\n", "=======\n", ">>>>>>> theirs\n"}, "marker")
		ls = append(ls[:i], append([]string{marker}, ls[i:]...)...)
		return []byte(strings.Join(ls, ""))
	}},
	{"blank-and-crlf-lines", func(t *rapid.T, b []byte) []byte {
		ls := splitKeep(b)
		for i := range ls {
			switch uni(t, 6, "kind") {
			case 0:
				ls[i] = strings.TrimSuffix(ls[i], "\n") + "\r\n"
			case 1:
				ls[i] = "\n" + ls[i]
			case 2:
				ls[i] = "   \t\n" + ls[i]
			}
		}
		return []byte(strings.Join(ls, ""))
	}},
	{"bom", func(t *rapid.T, b []byte) []byte { return append([]byte("\xef\xbb\xbf"), b...) }},
	{"nul-bytes", func(t *rapid.T, b []byte) []byte {
		i := uni(t, len(b)+1, "at")
		return append(append(append([]byte{}, b[:i]...), 0, 0), b[i:]...)
	}},
	{"unknown-event-type", func(t *rapid.T, b []byte) []byte {
		ls := splitKeep(b)
		if len(ls) == 0 {
			return b
		}
		i := uni(t, len(ls), "line")
		ls[i] = mutateJSONLine(t, ls[i], func(top map[string]any) { top["type"] = oneOf(t, []string{"comment", "NEW_TASK", "", "link2"}, "type") })
		return []byte(strings.Join(ls, ""))
	}},
	{"wrong-json-type-in-field", func(t *rapid.T, b []byte) []byte {
		ls := splitKeep(b)
		if len(ls) == 0 {
			return b
		}
		i := uni(t, len(ls), "line")
		bad := oneOf(t, []any{nil, 5, true, []any{}, map[string]any{}, "not-a-time", ""}, "value")
		ls[i] = mutateJSONLine(t, ls[i], func(top map[string]any) {
			if pct(t, 35, "top") {
				top[oneOf(t, []string{"data", "ts", "type"}, "key")] = bad
				return
			}
			if d, ok := top["data"].(map[string]any); ok && len(d) > 0 {
				ks := make([]string, 0, len(d))
				for k := range d {
					ks = append(ks, k)
				}
				sort.Strings(ks)
				d[oneOf(t, ks, "datakey")] = bad
			}
		})
		return []byte(strings.Join(ls, ""))
	}},
	{"non-object-line", func(t *rapid.T, b []byte) []byte {
		ls := splitKeep(b)
		i := uni(t, len(ls)+1, "at")
		l := oneOf(t, []string{"42\n", "[]\n", "null\n", "\"string\"\n", "true\n", "{}\n", "{\"type\":\"state\"}\n", "{\"type\":\"new_task\",\"data\":{}}\n"}, "line")
		ls = append(ls[:i], append([]string{l}, ls[i:]...)...)
		return []byte(strings.Join(ls, ""))
	}},
	{"oversized-line", func(t *rapid.T, b []byte) []byte {
		ls := splitKeep(b)
		if len(ls) == 0 {
			return b
		}
		i := uni(t, len(ls), "line")
		size := oneOf(t, []int{65000, 65535, 65536, 65537, 70000, 200000}, "size")
		if os.Getenv("VERIF_TIER") == "thorough" && pct(t, 10, "huge") {
			size = 10*1024*1024 + oneOf(t, []int{-100, 1, 5000}, "hugeoff")
		}
		ls[i] = mutateJSONLine(t, ls[i], func(top map[string]any) {
			if d, ok := top["data"].(map[string]any); ok {
				d["body"] = bigBody(size)
			}
		})
		return []byte(strings.Join(ls, ""))
	}},
	{"timestamps-tie", func(t *rapid.T, b []byte) []byte {
		ls := splitKeep(b)
		ts := "2026-05-05T05:05:05.5Z"
		for i := range ls {
			ls[i] = mutateJSONLine(t, ls[i], func(top map[string]any) { setTimes(top, ts) })
		}
		return []byte(strings.Join(ls, ""))
	}},
	{"timestamps-backwards", func(t *rapid.T, b []byte) []byte {
		ls := splitKeep(b)
		for i := range ls {
			ts := time.Date(2026, 1, 1, 0, 0, 0, 0, time.UTC).Add(-time.Duration(i) * time.Hour).Format(time.RFC3339Nano)
			ls[i] = mutateJSONLine(t, ls[i], func(top map[string]any) { setTimes(top, ts) })
		}
		return []byte(strings.Join(ls, ""))
	}},
	{"line-without-a-usable-timestamp", func(t *rapid.T, b []byte) []byte {
		ls := splitKeep(b)
		if len(ls) == 0 {
			return b
		}
		i := uni(t, len(ls), "line")
		bad := oneOf(t, []string{"not-a-time", "", "2026-13-45T99:99:99Z", "yesterday"}, "value")
		ls[i] = mutateJSONLine(t, ls[i], func(top map[string]any) { setTimes(top, bad) })
		return []byte(strings.Join(ls, ""))
	}},
	{"cyclic-links", func(t *rapid.T, b []byte) []byte {
		// what a hand merge of two branches can produce: A after B on one side, B after A on
		// the other. A is the task the check's `sequence` / `set` / `show` commands name.
		ids := taskIDsInLog(b)
		if len(ids) < 2 {
			return b
		}
		a, c := ids[0], ids[len(ids)-1]
		if top := c12FirstID(ids); top != "" && top != c {
			a = top
		}
		out := string(b)
		if !strings.HasSuffix(out, "\n") && out != "" {
			out += "\n"
		}
		for _, e := range [][2]string{{a, c}, {c, a}} {
			out += linkLine(e[0], e[1])
		}
		return []byte(out)
	}},
	{"diamond-ladder", func(t *rapid.T, b []byte) []byte {
		// a perfectly legal DAG with exponentially many paths: N1 after P1,Q1; P1,Q1 after N2;
		// ... hanging under the task the check's `sequence` command starts its search from
		ids := taskIDsInLog(b)
		top := c12FirstID(ids)
		tmpl := firstLineOfType(b, "new_task")
		if top == "" || tmpl == nil {
			return b
		}
		out := string(b)
		if !strings.HasSuffix(out, "\n") && out != "" {
			out += "\n"
		}
		n := between(t, 34, 40, "ladder.n")
		node := func(kind byte, i int) string { return fmt.Sprintf("%c%c%c%c77", kind, 'A'+i/26, 'A'+i%26, 'Z') }
		mk := func(id string) {
			m := cloneJSON(tmpl)
			if d, ok := m["data"].(map[string]any); ok {
				d["id"], d["title"], d["epic_id"], d["state"], d["body"] = id, "ladder "+id, "", "todo", ""
				if u, ok := d["uuid"].(string); ok && len(u) > 6 {
					d["uuid"] = u[:len(u)-6] + strings.ToLower(id)
				}
			}
			bb, _ := json.Marshal(m)
			out += string(bb) + "\n"
		}
		for i := 0; i <= n; i++ {
			mk(node('N', i))
			if i < n {
				mk(node('P', i))
				mk(node('Q', i))
			}
		}
		out += linkLine(top, node('N', 0))
		for i := 0; i < n; i++ {
			out += linkLine(node('N', i), node('P', i)) + linkLine(node('N', i), node('Q', i))
			out += linkLine(node('P', i), node('N', i+1)) + linkLine(node('Q', i), node('N', i+1))
		}
		return []byte(out)
	}},
	{"invalid-line-of-multibyte-text", func(t *rapid.T, b []byte) []byte {
		// a line cut in the middle of a long non-ASCII title, followed by more lines: many
		// more bytes than characters (messages that quote the line count one or the other)
		ls := splitKeep(b)
		ids := taskIDsInLog(b)
		id := "AAAAAA"
		if len(ids) > 0 {
			id = ids[0]
		}
		ch := oneOf(t, []string{"世", "é", "🚀", "क्ष"}, "mb.char")
		bad := fmt.Sprintf(`{"type":"title","ts":"2026-01-01T00:00:00Z","data":{"id":"%s","title":"%s`, id, strings.Repeat(ch, between(t, 25, 90, "mb.n"))) + "\n"
		at := 0
		if len(ls) > 0 {
			at = uni(t, len(ls), "mb.at")
		}
		out := append(append(append([]string{}, ls[:at]...), bad), ls[at:]...)
		return []byte(strings.Join(out, ""))
	}},
	{"random-bytes", func(t *rapid.T, b []byte) []byte {
		return rapid.SliceOfN(rapid.Byte(), 1, 300).Draw(t, "bytes")
	}},
	{"random-json-lines", func(t *rapid.T, b []byte) []byte {
		var sb strings.Builder
		for n := between(t, 1, 6, "lines"); n > 0; n-- {
			m := map[string]any{"type": oneOf(t, []string{"new_task", "state", "claim", "link", "tombstone", "result", "epic", "title"}, "type"), "ts": "2026-01-01T00:00:00Z",
				"data": map[string]any{"id": oneOf(t, []string{"AAAAAA", "BBBBBB", ""}, "id"), "state": oneOf(t, []string{"todo", "doing", "weird", ""}, "state"), "from_id": "AAAAAA", "to_id": oneOf(t, []string{"AAAAAA", "BBBBBB"}, "to"), "type": "depends", "created_at": oneOf(t, []string{"2026-01-01T00:00:00Z", "", "yesterday"}, "created"), "ts": "2026-01-01T00:00:00Z", "task_id": "AAAAAA", "epic_id": oneOf(t, []string{"", "BBBBBB", "AAAAAA"}, "epic")}}
			bb, _ := json.Marshal(m)
			sb.Write(bb)
			sb.WriteByte('\n')
		}
		return []byte(sb.String())
	}},
	{"empty-file", func(t *rapid.T, b []byte) []byte { return nil }},
}

// ---- the oracle ----

var reLineRef = regexp.MustCompile(`:(\d+):`)

// firstBadLine finds the first line a JSON-lines reader may stop at, and says whether
// that line is "not valid JSON" (then the error must name the file and the line). A line
// that is valid JSON but not an event object (a number, an array, an object whose type /
// ts are not strings) may be rejected too, with any message, or skipped; after such a
// line nothing is demanded. The unterminated final line is never demanded.
func firstBadLine(b []byte) (lineNo int, mustLocate bool) {
	lines, _ := LogLines(b)
	for i, l := range lines {
		tl := strings.TrimSpace(l)
		if tl == "" {
			continue
		}
		if len(l) > 10*1024*1024-1 {
			return 0, false // beyond the documented line limit: another message applies
		}
		if !json.Valid([]byte(tl)) {
			return i + 1, true
		}
		var top map[string]any
		if json.Unmarshal([]byte(tl), &top) != nil {
			return i + 1, false
		}
		for _, k := range []string{"type", "ts"} {
			if v, ok := top[k]; ok {
				if _, isStr := v.(string); !isStr {
					return i + 1, false
				}
			}
		}
		// keys differing only in case ("Type") are folded by Go's decoder
		for k, v := range top {
			lk := strings.ToLower(k)
			if (lk == "type" || lk == "ts") && k != lk {
				if _, isStr := v.(string); !isStr {
					return i + 1, false
				}
			}
		}
	}
	return 0, false
}

type c12cmd struct {
	args     []string
	stdin    string
	readOnly bool
	readsLog bool
}

// c12IDs holds the ids of the base log of the case being generated (set before the
// mutators run), so that a mutator can aim at the items the commands will name.
var c12IDs []string

// c12FirstID is the id the check's commands use as their first operand, if it is a task
// of the log.
func c12FirstID(tasks []string) string {
	if len(c12IDs) == 0 {
		return ""
	}
	for _, id := range tasks {
		if id == c12IDs[0] {
			return id
		}
	}
	return ""
}

func taskIDsInLog(b []byte) []string {
	var ids []string
	for _, l := range splitKeep(b) {
		var ev LogEvent
		if json.Unmarshal([]byte(strings.TrimSpace(l)), &ev) == nil && ev.Type == "new_task" {
			if id := ev.Str("id"); id != "" {
				ids = append(ids, id)
			}
		}
	}
	return ids
}

func firstLineOfType(b []byte, typ string) map[string]any {
	for _, l := range splitKeep(b) {
		var m map[string]any
		if json.Unmarshal([]byte(strings.TrimSpace(l)), &m) == nil && m["type"] == typ {
			return m
		}
	}
	return nil
}

func cloneJSON(m map[string]any) map[string]any {
	bb, _ := json.Marshal(m)
	var c map[string]any
	_ = json.Unmarshal(bb, &c)
	return c
}

func linkLine(from, to string) string {
	m := map[string]any{"type": "link", "ts": "2026-01-01T00:00:00Z", "data": map[string]any{"from_id": from, "to_id": to, "type": "depends"}}
	bb, _ := json.Marshal(m)
	return string(bb) + "\n"
}

func c12Commands(ids []string) []c12cmd {
	id := "AAAAAA"
	id2 := "BBBBBB"
	if len(ids) > 0 {
		id = ids[0]
		id2 = ids[len(ids)-1]
	}
	return []c12cmd{
		{[]string{"--json", "list", "--all"}, "", true, true},
		{[]string{"--json", "list", "--epics"}, "", true, true},
		{[]string{"--json", "list", "--ready"}, "", true, true},
		{[]string{"list", "--all"}, "", true, true},
		{[]string{"list", "--epics"}, "", true, true},
		{[]string{"list"}, "", true, true},
		{[]string{"--json", "show", id}, "", true, true},
		{[]string{"show", id2}, "", true, true},
		{[]string{"show", "--short", id}, "", true, true},
		{[]string{"--json", "prune"}, "", true, true},
		{[]string{"--json", "where"}, "", true, false},
		{[]string{"quickstart"}, "", true, false},
		{[]string{"--json", "compact"}, "", false, true},
		{[]string{"--json", "new", "task"}, `{"title":"added by the check"}`, false, true},
		{[]string{"--json", "--agent", "a1", "set", id}, `{"state":"doing"}`, false, true},
		{[]string{"--json", "claim", "--agent", "a1"}, "", false, true},
		{[]string{"--json", "sequence", id, id2}, "", false, true},
		{[]string{"--json", "prune", "--yes"}, "", false, true},
		{[]string{"--json", "plan"}, `{"title":"p","tasks":[{"title":"a"},{"title":"b","after":["a"]}]}`, false, true},
		{[]string{"--json", "init"}, "", false, false},
	}
}

func writeLogStore(tag string, content []byte, legacy bool) string {
	d := NewScratchDir(tag)
	_ = os.MkdirAll(filepath.Join(d, ".ergo"), 0o755)
	name := "plans.jsonl"
	if legacy {
		name = "events.jsonl"
	}
	_ = os.WriteFile(filepath.Join(d, ".ergo", name), content, 0o644)
	_ = os.WriteFile(filepath.Join(d, ".ergo", "lock"), nil, 0o644)
	return d
}

func runC12(c c12cmd, root string) Res {
	cmd := Cmd{Args: c.args, Dir: root}
	if c.stdin != "" {
		cmd.Mode, cmd.Stdin = StdinPipe, c.stdin
	}
	return Run(cmd)
}

// checkLogFile runs every command against the file content and applies the C12 oracle.
func checkLogFile(content []byte, legacy bool, ids []string, staleTmp int) (viol []string, reached int) {
	root := writeLogStore("c12", content, legacy)
	defer RemoveAll(root)
	logPath := LogPath(root)
	if staleTmp > 0 {
		_ = os.WriteFile(logPath+".tmp", content[:len(content)*staleTmp/1000], 0o644)
	}
	badLine, hasBad := firstBadLine(content)
	bad := func(f string, a ...any) { viol = append(viol, fmt.Sprintf(f, a...)) }
	before := DirListing(root)
	for _, c := range c12Commands(ids) {
		dir := root
		if !c.readOnly {
			dir = CloneStore(root, "c12m")
		}
		r := runC12(c, dir)
		name := strings.Join(c.args, " ")
		// (a) totality
		if r.TimedOut {
			// one serial re-run before a hang counts
			r = runC12(c, dir)
			if r.TimedOut {
				bad("`%s` did not terminate within the limit", name)
			}
		}
		if r.Signaled {
			bad("`%s` was killed by a signal (status %d)", name, r.Code)
		}
		if strings.Contains(r.Stderr, "panic:") || strings.Contains(r.Stderr, "goroutine 1 [") {
			bad("`%s` panicked: %s", name, clip(r.Stderr, 300))
		}
		if !r.OK() && !r.Signaled && !r.TimedOut {
			if !strings.Contains(r.Stderr, "error:") {
				bad("`%s` exited %d without an `error:` line: %q", name, r.Code, clip(r.Stderr, 200))
			}
		}
		if c.readsLog && hasBad {
			if r.OK() {
				bad("`%s` exited 0 although line %d of the log is not valid JSON", name, badLine)
			} else if !strings.Contains(r.Stderr, logPathIn(dir, logPath, root)) || !lineMentioned(r.Stderr, badLine) {
				bad("`%s` failed on a log whose line %d is not valid JSON, but the message does not name the file and that line: %q", name, badLine, clip(r.Stderr, 300))
			}
		}
		if r.OK() || (c.readsLog && !hasBad) {
			reached++
		}
		if c.readOnly {
			// (b) determinism
			for rep := 0; rep < 2; rep++ {
				r2 := runC12(c, dir)
				if r2.Code != r.Code || r2.Stdout != r.Stdout || r2.Stderr != r.Stderr {
					bad("`%s` gave different output on the same log (run 1 exit %d, run %d exit %d): %q vs %q", name, r.Code, rep+2, r2.Code, clip(diffHint(r.Stdout+r.Stderr, r2.Stdout+r2.Stderr), 300), "")
					break
				}
			}
			// (c) purity
			after := DirListing(root)
			for f, v := range before {
				if after[f] != v {
					bad("read-only `%s` changed .ergo/%s", name, f)
				}
			}
			for f, v := range after {
				if _, ok := before[f]; !ok && !(f == "lock" && v == "") {
					bad("read-only `%s` created .ergo/%s", name, f)
				}
			}
		} else {
			// (d) history only grows (mutations other than compact)
			if r.OK() && c.args[1] != "compact" {
				completeOnly, _ := LogLines(content)
				evBefore, err1 := ParseLog([]byte(strings.Join(completeOnly, "\n") + "\n"))
				evAfter, err2 := ParseLog(ReadLog(dir))
				if c.readsLog && !hasBad && err1 == nil {
					// the command read this log, accepted it and reported success: the log must
					// still be readable afterwards
					if rr := Run(Cmd{Args: []string{"--json", "list", "--all"}, Dir: dir}); !rr.OK() {
						bad("`%s` succeeded and left a log that can no longer be read: %s", name, clip(rr.Stderr, 240))
					}
				}
				if err1 == nil && err2 == nil {
					if len(evAfter) < len(evBefore) {
						bad("`%s` shrank the history from %d to %d events", name, len(evBefore), len(evAfter))
					} else {
						for i := range evBefore {
							a, _ := json.Marshal(evBefore[i])
							b, _ := json.Marshal(evAfter[i])
							if string(a) != string(b) {
								bad("`%s` changed event %d of the earlier history", name, i+1)
								break
							}
						}
					}
				}
			}
			RemoveAll(dir)
		}
		if len(viol) > 0 {
			return
		}
	}
	return
}

func logPathIn(dir, logPath, root string) string {
	return strings.Replace(logPath, root, dir, 1)
}

func lineMentioned(stderr string, line int) bool {
	for _, m := range reLineRef.FindAllStringSubmatch(stderr, -1) {
		if m[1] == fmt.Sprint(line) {
			return true
		}
	}
	return false
}

func diffHint(a, b string) string {
	n := 0
	for n < len(a) && n < len(b) && a[n] == b[n] {
		n++
	}
	lo := n - 40
	if lo < 0 {
		lo = 0
	}
	return fmt.Sprintf("first difference at byte %d: ...%s | ...%s", n, clip(a[lo:], 120), clip(b[lo:], 120))
}

// baseLog builds a valid log: half of the time through real commands, half as a
// synthesized world (which brings ties, moves, crash residue).
func baseLog(t *rapid.T, s *Synth) (content []byte, ids []string, how string) {
	if s != nil && pct(t, 50, "base.synth") {
		w := genSynWorld(t)
		for _, it := range w.Items {
			ids = append(ids, it.ID)
		}
		return []byte(s.Render(w)), ids, "synthesized world"
	}
	w := NewWorld("c12base")
	defer w.Close()
	pre, _ := TakeSnapshot(w.Root)
	n := between(t, 3, 12, "base.steps")
	for i := 0; i < n; i++ {
		op := genOp(t, w, pre, setupProfile)
		op.N = i
		out := w.Step(pre, op)
		if out.Post == nil {
			break
		}
		pre = out.Post
	}
	ids = pre.SortedIDs()
	return ReadLog(w.Root), ids, "command history"
}

func TestC12(t *testing.T) {
	if os.Getenv("VERIF_MINIMIZE_IN") != "" {
		return
	}
	if p := os.Getenv("VERIF_REPLAY_IN"); p != "" {
		b, _ := os.ReadFile(p)
		var lc LogCase
		if err := json.Unmarshal(b, &lc); err != nil {
			t.Fatal(err)
		}
		content, _ := base64.StdEncoding.DecodeString(lc.FileB64)
		for rep := 0; rep < 6; rep++ {
			if v, _ := checkLogFile(content, lc.Legacy, lc.IDs, lc.StaleTmp); len(v) > 0 {
				t.Fatalf("REPLAY-VIOLATION C12: %v", v)
			}
		}
		return
	}
	s, _ := GetSynth()
	if s != nil && CalibrateSynth(s) != "" {
		s = nil
	}
	stats := NewStats("C12", "LOGS/mutated-files", "a valid log (from a random command history, or a synthesized world with tied creation times / moves / crash residue) with 0-3 mutations out of 20 kinds (truncation at any byte, bit flips, line duplication / deletion / shuffle / swap, conflict markers, blank and CRLF lines, BOM, NULs, unknown event type, wrong JSON type in a field, non-object lines, lines around the 64 KiB boundary, tied and backwards timestamps, random bytes, random JSON lines, empty file), stored as plans.jsonl or legacy events.jsonl; 19 commands are run on each file; oracle: every command terminates with exit 0/1 semantics, no signal, no panic, an `error:` line on failure, file and line named when the first bad line is not valid JSON; every read-only command is repeated and must be byte-identical, and leaves .ergo byte-identical; every successful mutation other than compact keeps the earlier parsed events as a prefix; non-trivial = the file was mutated or has tied timestamps and at least one log-reading command reached replay; distinct = distinct file contents")
	defer stats.Flush()
	deadline := budgetDeadline()
	replayPath := ReplayOutPath("C12")
	rapid.Check(t, func(rt *rapid.T) {
		if !deadline.IsZero() && time.Now().After(deadline) {
			stats.Shortfall = "wall-clock guard reached before all requested files ran"
			return
		}
		content, ids, how := baseLog(rt, s)
		c12IDs = ids
		var applied []string
		for n := oneOf(rt, []int{0, 1, 1, 1, 2, 2, 3}, "mutations"); n > 0; n-- {
			m := oneOf(rt, logMutators, "mutator")
			content = m.f(rt, content)
			applied = append(applied, m.name)
		}
		legacy := pct(rt, 15, "legacy")
		staleTmp := 0
		if pct(rt, 15, "stale.tmp") {
			staleTmp = 1 + uni(rt, 999, "stale.tmp.permille")
			stats.Label("stale_temp_file_next_to_the_log")
		}
		viol, reached := checkLogFile(content, legacy, ids, staleTmp)
		if len(viol) > 0 {
			var vs []Violation
			for _, m := range viol {
				vs = append(vs, Violation{"C12", m})
			}
			WriteReplay(replayPath, LogCase{Property: "C12", Engine: "LOGS", Test: "TestC12", FileB64: base64.StdEncoding.EncodeToString(content), Legacy: legacy, IDs: ids, Mutations: applied, StaleTmp: staleTmp, Violations: vs, Preview: clip(string(content), 1500)})
			rt.Fatalf("C12 violated: %v", viol)
		}
		stats.Eval()
		stats.Label("base." + how)
		for _, a := range applied {
			stats.Label("mut." + a)
		}
		tied := strings.Contains(how, "synth")
		if (len(applied) > 0 || tied) && reached > 0 {
			stats.NonTrivial(string(content))
			stats.Label("file.nontrivial")
		}
		stats.LabelN("commands_run", len(c12Commands(ids)))
		stats.Sample(len(applied), map[string]any{"base": how, "mutations": applied, "bytes": len(content), "legacy_name": legacy, "file_head": clip(string(content), 400)})
	})
}

package props

import (
	"encoding/json"
	"fmt"
	"os"
	"strings"
	"testing"
	"time"

	"pgregory.net/rapid"
)

// History is a replayable case of the SEQ engine.
type History struct {
	Property   string      `json:"property"`
	Engine     string      `json:"engine"`
	Profile    string      `json:"profile"`
	Ops        []Op        `json:"ops"`
	Violations []Violation `json:"violations,omitempty"`
	Trace      []string    `json:"trace,omitempty"`
	Note       string      `json:"note,omitempty"`
}

// stepInfo is what the non-triviality rules and labels look at.
type stepInfo struct {
	Out      StepOut
	Pre      *Snapshot
	PreState string // state of the target before the op ("" if none)
	PreClaim string
	TargetOK bool
}

func fieldSig(op Op) string {
	var s []string
	add := func(c bool, n string) {
		if c {
			s = append(s, n)
		}
	}
	add(op.Title != nil, "T")
	add(op.Body != nil, "B")
	add(op.Epic != nil, "E")
	if op.State != nil {
		s = append(s, "S="+*op.State)
	}
	if op.Claim != nil {
		if *op.Claim == "" {
			s = append(s, "C=empty")
		} else {
			s = append(s, "C")
		}
	}
	add(op.Agent != "", "A")
	add(op.ResultPath != nil, "R")
	add(op.ExtraKey != "", "X")
	add(op.Raw != nil, "RAW")
	add(op.HoldLock, "L")
	if len(op.Refs) > 0 {
		s = append(s, fmt.Sprintf("n%d", len(op.Refs)))
	}
	if op.Plan != nil {
		e := 0
		for _, t := range op.Plan.Tasks {
			e += len(t.After)
		}
		s = append(s, fmt.Sprintf("p%d/%d", len(op.Plan.Tasks), e))
	}
	return strings.Join(s, ",")
}

func canonStep(si stepInfo) string {
	acc := "rej"
	if si.Out.Accepted {
		acc = "acc"
	}
	return fmt.Sprintf("%s/%s/%s/%s/%s/%s", si.Out.Op.Kind, si.Out.Op.Mode, fieldSig(si.Out.Op), si.PreState, si.Out.Decision, acc)
}

// SeqCheck configures one SEQ-based property check.
type SeqCheck struct {
	Prop    string
	Profile Profile
	Rule    string
	// NonTrivial decides from the executed history whether it counts.
	NonTrivial func(h []stepInfo) bool
	// FaultPct: percent of steps (from step 3 on) at which a command dies - torn append or
	// leftover temp file - instead of running; 0 = never. The never-crashed twin is not
	// used here: the next commands are judged by the property's own oracle.
	FaultPct int
	// TolerateResidue: after a fault, violations of other properties' state invariants
	// (what a torn multi-event write leaves, e.g. todo-but-claimed) do not end the history:
	// this property has something to say about such logs (C05: "logs whose tail was torn").
	TolerateResidue bool
	// GenOp overrides the op generator (may be nil).
	GenOp func(rt *rapid.T, w *World, pre *Snapshot, prof Profile) Op
	// AfterStep lets a property add its own oracle after a step (may be nil).
	AfterStep func(rt *rapid.T, w *World, h []stepInfo) []Violation
	// AtEnd runs once after the last step (may be nil).
	AtEnd func(rt *rapid.T, w *World, h []stepInfo, last *Snapshot) []Violation
}

func splitViolations(v []Violation, prop string) (own, foreign []Violation) {
	for _, x := range v {
		if x.Prop == prop {
			own = append(own, x)
		} else {
			foreign = append(foreign, x)
		}
	}
	return
}

func preInfo(w *World, pre *Snapshot, op Op) (state, claim string, ok bool) {
	if op.Target != nil {
		if it := pre.Items[w.Resolve(*op.Target)]; it != nil {
			if it.IsEpic {
				return "epic", "", true
			}
			return it.State, it.ClaimedBy, true
		}
		return "", "", false
	}
	if op.Kind == "new_task" {
		return "new", "", true
	}
	return "", "", true
}

// runOps executes a fixed list of ops (replay) and returns the first own-property failure.
func runOps(sc SeqCheck, ops []Op) (own []Violation, trace []string) {
	w := NewWorld(sc.Prop + "-replay")
	w.NoTwin = sc.Prop != "C03"
	defer w.Close()
	pre, err := TakeSnapshot(w.Root)
	if err != nil {
		return []Violation{{sc.Prop, "fresh store unreadable: " + err.Error()}}, nil
	}
	var hist []stepInfo
	for _, op := range ops {
		st, cl, ok := preInfo(w, pre, op)
		out := w.Step(pre, op)
		hist = append(hist, stepInfo{out, pre, st, cl, ok})
		trace = append(trace, describeOps([]StepOut{out})...)
		o, _ := splitViolations(out.Viol, sc.Prop)
		if len(o) > 0 {
			return o, trace
		}
		if out.Post == nil || out.Abort != "" {
			break
		}
		pre = out.Post
		if sc.AfterStep != nil {
			if v, _ := splitViolations(sc.AfterStep(nil, w, hist), sc.Prop); len(v) > 0 {
				return v, trace
			}
		}
	}
	if sc.AtEnd != nil {
		if v, _ := splitViolations(sc.AtEnd(nil, w, hist, pre), sc.Prop); len(v) > 0 {
			return v, trace
		}
	}
	return nil, trace
}

// residueTask returns a task that is todo / done / canceled but claimed - what a
// claim+state batch whose state line was torn off leaves - or "".
func residueTask(s *Snapshot) string {
	for _, id := range s.SortedIDs() {
		if it := s.Items[id]; !it.IsEpic && forbidsClaim(it.State) && it.ClaimedBy != "" {
			return id
		}
	}
	return ""
}

// RunSeq is the body shared by all SEQ-based tests.
func RunSeq(t *testing.T, sc SeqCheck) {
	if sc.Profile.ChopPct == 0 {
		sc.Profile.ChopPct = 3
	}
	if sc.Profile.DebrisPct == 0 {
		sc.Profile.DebrisPct = 4
	}
	if sc.Profile.RedatePct == 0 {
		sc.Profile.RedatePct = 2
	}
	if p := os.Getenv("VERIF_MINIMIZE_IN"); p != "" {
		minimizeSeq(t, sc, p)
		return
	}
	if p := os.Getenv("VERIF_REPLAY_IN"); p != "" {
		replaySeq(t, sc, p)
		return
	}
	stats := NewStats(sc.Prop, "SEQ/"+sc.Profile.Name, sc.Rule)
	defer stats.Flush()
	deadline := budgetDeadline()
	replayPath := ReplayOutPath(sc.Prop)
	skipped := 0
	rapid.Check(t, func(rt *rapid.T) {
		if !deadline.IsZero() && time.Now().After(deadline) {
			skipped++
			stats.Shortfall = fmt.Sprintf("wall-clock guard reached; %d generated cases were not executed", skipped)
			return
		}
		w := NewWorld(sc.Prop)
		w.NoTwin = sc.Prop != "C03"
		defer w.Close()
		pre, err := TakeSnapshot(w.Root)
		if err != nil {
			rt.Fatalf("fresh store unreadable: %v", err)
		}
		n := between(rt, sc.Profile.MinSteps, sc.Profile.MaxSteps, "steps")
		var hist []stepInfo
		var ops []Op
		fail := func(v []Violation) {
			var trace []string
			for _, s := range hist {
				trace = append(trace, describeOps([]StepOut{s.Out})...)
			}
			WriteReplay(replayPath, History{Property: sc.Prop, Engine: "SEQ", Profile: sc.Profile.Name, Ops: ops, Violations: v, Trace: trace})
			rt.Fatalf("%s violated after %d steps: %v\nlast: %s", sc.Prop, len(ops), v, hist[len(hist)-1].Out.Explain())
		}
		ended := ""
		for i := 0; i < n; i++ {
			var op Op
			if sc.FaultPct > 0 && w.StepNo >= 3 && w.Twin == nil && StraceAvailable() == nil && pct(rt, sc.FaultPct, "seq.fault") {
				inner := genOp(rt, w, pre, Profile{Name: "dying", Weights: map[string]int{"new_task": 30, "set": 40, "plan": 15, "compact": 15, "claim": 12, "claim_id": 12}, ClaimPct: 30, StatePct: 40})
				kind := "tear"
				if inner.Kind == "plan" || inner.Kind == "compact" {
					kind = "tmp"
				}
				if kind == "tear" && pct(rt, 30, "seq.fault.reopen") {
					// a reopening `set` (claim + state=todo) of a finished task, torn after its claim
					// line: the task stays finished and gets a claimant nobody meant it to keep
					var fin []string
					for _, id := range pre.SortedIDs() {
						if it := pre.Items[id]; !it.IsEpic && (it.State == "done" || it.State == "canceled") {
							fin = append(fin, id)
						}
					}
					if len(fin) > 0 {
						g := refGen{rt, w, pre}
						r := g.ref(oneOf(rt, fin, "seq.fault.reopen.target"))
						inner = Op{Kind: "set", Mode: "json", Target: &r, Claim: sp(oneOf(rt, agents, "seq.fault.reopen.agent")), State: sp("todo")}
					}
				}
				frac := uni(rt, 1000, "seq.fault.frac")
				if kind == "tear" && pct(rt, 50, "seq.fault.late") {
					frac = 700 + frac*3/10 // the earlier lines of the batch complete, the last one cut
				}
				op = Op{Kind: "fault", Inner: &inner, FaultKind: kind, Frac: float64(frac) / 1000}
			} else if residue := residueTask(pre); residue != "" && sc.TolerateResidue && pct(rt, 35, "seq.residue.target") {
				// a task the crash left half-claimed (claim recorded, state change cut off):
				// ordinary edits of it are ordinary commands
				g := refGen{rt, w, pre}
				r := g.ref(residue)
				op = Op{Kind: "set", Mode: oneOf(rt, []string{"json", "json", "flags"}, "seq.residue.mode"), Target: &r, Agent: oneOf(rt, agents, "seq.residue.agent")}
				switch uni(rt, 3, "seq.residue.field") {
				case 0:
					op.Title = sp(w.UniqueTitle("edited after the crash"))
				case 1:
					op.Body = sp(genBody(rt, "seq.residue.body"))
				default:
					op.Title = sp(w.UniqueTitle("edited after the crash"))
					op.Body = sp(genBody(rt, "seq.residue.body"))
				}
			} else if sc.GenOp != nil {
				op = sc.GenOp(rt, w, pre, sc.Profile)
			} else {
				op = genOp(rt, w, pre, sc.Profile)
			}
			op.N = i
			ops = append(ops, op)
			st, cl, ok := preInfo(w, pre, op)
			out := w.Step(pre, op)
			hist = append(hist, stepInfo{out, pre, st, cl, ok})
			own, foreign := splitViolations(out.Viol, sc.Prop)
			if len(own) > 0 {
				fail(own)
			}
			if len(foreign) > 0 && sc.TolerateResidue && out.Post != nil && out.Abort == "" && anyStep(hist, func(s stepInfo) bool { return s.Out.Op.Kind == "fault" }) {
				stats.Label("continued.with_crash_residue")
				pre = out.Post
				continue
			}
			if len(foreign) > 0 && anyStep(hist, func(s stepInfo) bool { return s.Out.Op.Kind == "fault" }) {
				// state invariants of other properties are stated for command histories; what a
				// torn write leaves behind is outside their domain
				stats.Label("ended.crash_residue_outside_other_properties_domain")
				ended = "foreign"
				break
			}
			if len(foreign) > 0 {
				stats.ForeignViolation(foreign[0].Prop)
				var outs []StepOut
				for _, s := range hist {
					outs = append(outs, s.Out)
				}
				stats.ForeignExample(foreign[0], describeOps(outs))
				ended = "foreign"
				break
			}
			if out.Abort != "" || out.Post == nil {
				stats.Abort(out.Abort)
				ended = "abort"
				break
			}
			pre = out.Post
			if sc.AfterStep != nil {
				own, foreign := splitViolations(sc.AfterStep(rt, w, hist), sc.Prop)
				if len(own) > 0 {
					fail(own)
				}
				if len(foreign) > 0 {
					stats.ForeignViolation(foreign[0].Prop)
					ended = "foreign"
					break
				}
			}
		}
		if ended == "" && sc.AtEnd != nil {
			own, foreign := splitViolations(sc.AtEnd(rt, w, hist, pre), sc.Prop)
			if len(own) > 0 {
				fail(own)
			}
			if len(foreign) > 0 {
				stats.ForeignViolation(foreign[0].Prop)
			}
		}
		// bookkeeping (only reached by passing cases)
		stats.Eval()
		stats.LabelN("steps", len(hist))
		var canon []string
		for _, s := range hist {
			canon = append(canon, canonStep(s))
			stats.Label("op." + s.Out.Op.Kind)
			if s.Out.Accepted {
				stats.Label("accepted")
			} else {
				stats.Label("rejected")
			}
			stats.Label("decision." + s.Out.Decision)
			for _, l := range s.Out.Labels {
				stats.Label(l)
			}
			for _, r := range s.Out.Reasons {
				if r.Owner != "" {
					stats.Label("reason." + r.Owner)
				}
			}
		}
		if sc.NonTrivial == nil || sc.NonTrivial(hist) {
			stats.NonTrivial(strings.Join(canon, ";"))
			stats.Label("history.nontrivial")
		}
		var outs []StepOut
		for _, s := range hist {
			outs = append(outs, s.Out)
		}
		stats.Sample(len(hist), map[string]any{"history": describeOps(outs)})
	})
}

func replaySeq(t *testing.T, sc SeqCheck, path string) {
	b, err := os.ReadFile(path)
	if err != nil {
		t.Fatalf("cannot read replay %s: %v", path, err)
	}
	var h History
	if err := json.Unmarshal(b, &h); err != nil {
		t.Fatalf("bad replay file: %v", err)
	}
	own, trace := runOps(sc, h.Ops)
	for _, l := range trace {
		t.Log(l)
	}
	if len(own) > 0 {
		t.Fatalf("REPLAY-VIOLATION %s: %v", sc.Prop, own)
	}
}

// minimizeSeq shrinks a recorded failing history further than rapid's bit-level
// shrinking manages: greedy deletion of ops and of inessential fields, keeping every
// variant that still violates the same property, within a time budget.
func minimizeSeq(t *testing.T, sc SeqCheck, path string) {
	b, err := os.ReadFile(path)
	if err != nil {
		t.Fatalf("cannot read %s: %v", path, err)
	}
	var h History
	if err := json.Unmarshal(b, &h); err != nil {
		t.Fatalf("bad replay file: %v", err)
	}
	deadline := time.Now().Add(time.Duration(envInt("VERIF_MINIMIZE_S", 60)) * time.Second)
	fails := func(ops []Op) ([]Violation, []string, bool) {
		v, tr := runOps(sc, ops)
		return v, tr, len(v) > 0
	}
	v, tr, ok := fails(h.Ops)
	if !ok {
		t.Logf("recorded case does not fail on replay (schedule- or time-dependent?); left as it is")
		return
	}
	ops := h.Ops
	changed := true
	for changed && time.Now().Before(deadline) {
		changed = false
		for i := len(ops) - 1; i >= 0 && time.Now().Before(deadline); i-- {
			cand := append(append([]Op{}, ops[:i]...), ops[i+1:]...)
			if v2, tr2, bad := fails(cand); bad {
				ops, v, tr, changed = cand, v2, tr2, true
			}
		}
	}
	simplify := []func(*Op) bool{
		func(o *Op) bool {
			c := o.Quiet || o.Verbose || o.JSONAfter
			o.Quiet, o.Verbose, o.JSONAfter = false, false, false
			return c
		},
		func(o *Op) bool {
			c := o.Body != nil && o.Mode != "bodystdin"
			if c {
				o.Body = nil
			}
			return c
		},
		func(o *Op) bool {
			c := o.ResultPath != nil
			o.ResultPath, o.ResultSummary, o.Files = nil, nil, nil
			return c
		},
		func(o *Op) bool { c := o.Epic != nil; o.Epic = nil; return c },
		func(o *Op) bool { c := o.Agent != ""; o.Agent = ""; return c },
		func(o *Op) bool {
			c := o.Title != nil && o.Kind == "set"
			if c {
				o.Title = nil
			}
			return c
		},
		func(o *Op) bool {
			c := o.Mode == "flags" || o.Mode == "bodystdin"
			if c {
				o.Mode = "json"
			}
			return c
		},
	}
	for i := range ops {
		for _, f := range simplify {
			if !time.Now().Before(deadline) {
				break
			}
			cand := append([]Op{}, ops...)
			o := cand[i]
			if !f(&o) {
				continue
			}
			cand[i] = o
			if v2, tr2, bad := fails(cand); bad {
				ops, v, tr = cand, v2, tr2
			}
		}
	}
	h.Ops, h.Violations, h.Trace = ops, v, tr
	h.Note = "minimised by greedy op/field deletion after rapid's shrinking"
	WriteReplay(path, h)
	t.Logf("minimised to %d ops", len(ops))
}

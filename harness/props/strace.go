package props

import (
	"fmt"
	"os"
	"os/exec"
	"path/filepath"
	"regexp"
	"strconv"
	"strings"
	"sync"
	"sync/atomic"
	"syscall"
	"time"
)

// The crash and schedule engines own the crash point / the schedule without any source
// hook: the ergo process runs under strace, which (a) records the system calls it issues
// on the store's files and (b) injects SIGKILL before, or SIGSTOP after, the k-th call of
// a chosen name. Verified on this sandbox (DESIGN 1.5, 1.6): SIGKILL lands before the
// call executes, i.e. exactly between two system calls; SIGSTOP parks the process right
// after the call completed, holding whatever it holds, until SIGCONT.

// Inject describes one strace injection.
type Inject struct {
	Syscall string `json:"syscall"`
	When    int    `json:"when"`
	Kind    string `json:"kind"`            // "kill" | "stop" | "error"
	Errno   string `json:"errno,omitempty"` // for kind error, e.g. ENOSPC
}

func (i Inject) arg() string {
	switch i.Kind {
	case "kill":
		return fmt.Sprintf("inject=%s:signal=SIGKILL:when=%d", i.Syscall, i.When)
	case "stop":
		if i.When <= 0 {
			return fmt.Sprintf("inject=%s:signal=SIGSTOP", i.Syscall) // after every such call
		}
		return fmt.Sprintf("inject=%s:signal=SIGSTOP:when=%d", i.Syscall, i.When)
	default:
		return fmt.Sprintf("inject=%s:error=%s:when=%d", i.Syscall, i.Errno, i.When)
	}
}

func (i Inject) String() string {
	if i.Kind == "error" {
		return fmt.Sprintf("%s of %s #%d", i.Errno, i.Syscall, i.When)
	}
	return fmt.Sprintf("%s at %s #%d", i.Kind, i.Syscall, i.When)
}

// TraceCall is one system call on the store's files.
type TraceCall struct {
	PID  int
	Name string
	Args string
	Ret  string
}

func (c TraceCall) String() string {
	return fmt.Sprintf("%s(%s) = %s", c.Name, clip(c.Args, 70), c.Ret)
}

// Syscall sets.
const (
	// every call that touches the store's files, for schedules and traces
	traceSetAll = "openat,newfstatat,statx,flock,read,pread64,write,pwrite64,writev,fsync,fdatasync,rename,renameat,renameat2,unlink,unlinkat,ftruncate,truncate,link,linkat,symlinkat,mkdirat,close"
)

// killNames are the calls before which a kill is worth trying: everything that changes
// the store or the lock. A kill before any other call is equivalent to one of these.
var killNames = []string{"openat", "flock", "write", "pwrite64", "writev", "fsync", "fdatasync", "rename", "renameat", "renameat2", "unlink", "unlinkat", "ftruncate", "truncate", "link", "linkat"}

var mutatingCall = map[string]bool{"write": true, "pwrite64": true, "writev": true, "rename": true, "renameat": true, "renameat2": true, "unlink": true, "unlinkat": true, "ftruncate": true, "truncate": true, "link": true, "linkat": true}

func storePaths(root string) []string {
	d := filepath.Join(root, ".ergo")
	return []string{d, filepath.Join(d, "lock"), filepath.Join(d, "plans.jsonl"), filepath.Join(d, "plans.jsonl.tmp"), filepath.Join(d, "events.jsonl"), filepath.Join(d, "events.jsonl.tmp")}
}

var straceOK struct {
	once sync.Once
	err  error
}

// StraceAvailable reports whether ptrace-based tracing works here (else the crash and
// schedule checks exit with infrastructure status, never a violation).
func StraceAvailable() error {
	straceOK.once.Do(func() {
		if _, err := exec.LookPath("strace"); err != nil {
			straceOK.err = err
			return
		}
		out, err := exec.Command("strace", "-qq", "-e", "trace=none", "/bin/true").CombinedOutput()
		if err != nil {
			straceOK.err = fmt.Errorf("strace cannot trace: %v: %s", err, clip(string(out), 200))
		}
	})
	return straceOK.err
}

var traceSeq int64

// StraceOut is a finished traced run.
type StraceOut struct {
	Res    Res
	Calls  []TraceCall
	Killed bool
	Raw    string
}

var (
	reCall       = regexp.MustCompile(`^(\d+)\s+(\w+)\((.*)\)\s+= (.*)$`)
	reUnfinished = regexp.MustCompile(`^(\d+)\s+(\w+)\((.*) <unfinished \.\.\.>$`)
	reResumed    = regexp.MustCompile(`^(\d+)\s+<\.\.\. (\w+) resumed>(.*)\)\s+= (.*)$`)
)

// ParseTrace turns strace -f -o output into calls (unfinished/resumed pairs are joined).
func ParseTrace(raw string) (calls []TraceCall, killed bool, stops int) {
	pending := map[int]*TraceCall{}
	// One SIGSTOP stops the whole thread group and strace logs one "stopped" line per
	// thread, at slightly different moments. The number of stops is therefore the largest
	// per-thread count, not the number of lines: a straggler's line for the previous stop
	// must not look like a new park.
	perThread := map[string]int{}
	defer func() {
		stops = 0
		for _, n := range perThread {
			if n > stops {
				stops = n
			}
		}
	}()
	for _, line := range strings.Split(raw, "\n") {
		if strings.Contains(line, "+++ killed by SIGKILL +++") {
			killed = true
			continue
		}
		if strings.Contains(line, "--- stopped by SIGSTOP ---") {
			if f := strings.Fields(line); len(f) > 0 {
				perThread[f[0]]++
			}
			continue
		}
		if m := reCall.FindStringSubmatch(line); m != nil {
			pid, _ := strconv.Atoi(m[1])
			calls = append(calls, TraceCall{pid, m[2], m[3], m[4]})
			continue
		}
		if m := reUnfinished.FindStringSubmatch(line); m != nil {
			pid, _ := strconv.Atoi(m[1])
			pending[pid] = &TraceCall{PID: pid, Name: m[2], Args: m[3]}
			continue
		}
		if m := reResumed.FindStringSubmatch(line); m != nil {
			pid, _ := strconv.Atoi(m[1])
			if p := pending[pid]; p != nil && p.Name == m[2] {
				p.Args += m[3]
				p.Ret = m[4]
				calls = append(calls, *p)
				delete(pending, pid)
			}
		}
	}
	return
}

func straceArgs(traceFile, root, set string, inj *Inject, c Cmd) []string {
	args := []string{"-f", "-qq", "-o", traceFile}
	for _, p := range storePaths(root) {
		args = append(args, "-P", p)
	}
	args = append(args, "-e", "trace="+set)
	if inj != nil {
		args = append(args, "-e", inj.arg())
	}
	args = append(args, ErgoBin())
	return append(args, c.Args...)
}

// StraceRun runs one ergo command to completion under strace.
func StraceRun(c Cmd, root string, inj *Inject) StraceOut {
	n := atomic.AddInt64(&traceSeq, 1)
	traceFile := filepath.Join(ScratchRoot(), fmt.Sprintf("trace-%d-%d.txt", os.Getpid(), n))
	_ = os.MkdirAll(ScratchRoot(), 0o755)
	defer os.Remove(traceFile)
	sc := Cmd{Args: straceArgs(traceFile, root, traceSetAll, inj, c)[0:], Stdin: c.Stdin, Mode: c.Mode, Dir: c.Dir, Env: append([]string{"GOMAXPROCS=1"}, c.Env...)}
	res := RunBin("strace", sc)
	raw, _ := os.ReadFile(traceFile)
	calls, killed, _ := ParseTrace(string(raw))
	return StraceOut{Res: res, Calls: calls, Killed: killed, Raw: string(raw)}
}

// KillPoints lists the (syscall, k) pairs worth injecting for a command whose
// undisturbed trace is calls.
func KillPoints(calls []TraceCall) []Inject {
	want := map[string]bool{}
	for _, n := range killNames {
		want[n] = true
	}
	count := map[string]int{}
	var out []Inject
	for _, c := range calls {
		if !want[c.Name] {
			continue
		}
		count[c.Name]++
		out = append(out, Inject{Syscall: c.Name, When: count[c.Name], Kind: "kill"})
	}
	return out
}

// ---- parked processes (schedule control) ----

// Parked is an ergo process running under strace that the controller stops and resumes.
type Parked struct {
	cmd       *exec.Cmd
	traceFile string
	stdout    *strings.Builder
	stderr    *strings.Builder
	done      chan struct{}
	waitErr   error
	seenStops int
	start     time.Time
}

// StartParked starts c under strace with a SIGSTOP injection and returns immediately.
func StartParked(c Cmd, root string, inj *Inject) (*Parked, error) {
	n := atomic.AddInt64(&traceSeq, 1)
	traceFile := filepath.Join(ScratchRoot(), fmt.Sprintf("trace-%d-%d.txt", os.Getpid(), n))
	_ = os.MkdirAll(ScratchRoot(), 0o755)
	args := straceArgs(traceFile, root, traceSetAll, inj, c)
	atomic.AddInt64(&execCount, 1)
	cmd := exec.Command("strace", args...)
	cmd.Dir = c.Dir
	cmd.Env = append(append(baseEnv(), "GOMAXPROCS=1"), c.Env...)
	p := &Parked{cmd: cmd, traceFile: traceFile, stdout: &strings.Builder{}, stderr: &strings.Builder{}, done: make(chan struct{}), start: time.Now()}
	cmd.Stdout, cmd.Stderr = p.stdout, p.stderr
	if c.Mode == StdinPipe {
		cmd.Stdin = strings.NewReader(c.Stdin)
	}
	if err := cmd.Start(); err != nil {
		return nil, err
	}
	go func() {
		p.waitErr = cmd.Wait()
		close(p.done)
	}()
	return p, nil
}

func (p *Parked) traceRaw() string {
	b, _ := os.ReadFile(p.traceFile)
	return string(b)
}

// tracee returns the pid of the traced ergo process (first pid in the trace).
func (p *Parked) tracee() int {
	for _, line := range strings.Split(p.traceRaw(), "\n") {
		if f := strings.Fields(line); len(f) > 0 {
			if pid, err := strconv.Atoi(f[0]); err == nil {
				return pid
			}
		}
	}
	return 0
}

// WaitParkedOrExit waits until the process is parked again (a new "stopped by SIGSTOP"
// line in the trace) or has exited. It reports exited=true in the latter case; timeout
// means neither happened (the process is running or blocked).
func (p *Parked) WaitParkedOrExit(timeout time.Duration) (exited bool, timedOut bool) {
	deadline := time.Now().Add(timeout)
	for {
		select {
		case <-p.done:
			return true, false
		default:
		}
		_, _, stops := ParseTrace(p.traceRaw())
		if stops > p.seenStops {
			p.seenStops = stops
			return false, false
		}
		if time.Now().After(deadline) {
			return false, true
		}
		time.Sleep(300 * time.Microsecond)
	}
}

// Resume sends SIGCONT to every stopped thread of the tracee.
func (p *Parked) Resume() {
	raw := p.traceRaw()
	seen := map[int]bool{}
	for _, line := range strings.Split(raw, "\n") {
		if f := strings.Fields(line); len(f) > 0 {
			if pid, err := strconv.Atoi(f[0]); err == nil && !seen[pid] {
				seen[pid] = true
				_ = syscall.Kill(pid, syscall.SIGCONT)
			}
		}
	}
}

// Finish resumes the process until it exits and returns the result.
func (p *Parked) Finish(timeout time.Duration) (Res, []TraceCall, bool) {
	deadline := time.Now().Add(timeout)
	for {
		select {
		case <-p.done:
			return p.result(), p.calls(), false
		default:
		}
		p.Resume()
		exited, _ := p.WaitParkedOrExit(20 * time.Millisecond)
		if exited {
			return p.result(), p.calls(), false
		}
		if time.Now().After(deadline) {
			p.Kill()
			return p.result(), p.calls(), true
		}
	}
}

func (p *Parked) calls() []TraceCall {
	c, _, _ := ParseTrace(p.traceRaw())
	return c
}

// Kill ends the tracee and strace.
func (p *Parked) Kill() {
	if pid := p.tracee(); pid > 0 {
		_ = syscall.Kill(pid, syscall.SIGKILL)
	}
	_ = p.cmd.Process.Kill()
	<-p.done
}

func (p *Parked) Close() { os.Remove(p.traceFile) }

func (p *Parked) result() Res {
	res := Res{Stdout: p.stdout.String(), Stderr: p.stderr.String(), Wall: time.Since(p.start)}
	if p.waitErr != nil {
		if ee, ok := p.waitErr.(*exec.ExitError); ok {
			if ws, ok := ee.Sys().(syscall.WaitStatus); ok && ws.Signaled() {
				res.Signaled = true
				res.Code = 128 + int(ws.Signal())
			} else {
				res.Code = ee.ExitCode()
			}
		} else {
			res.Code = -1
		}
	}
	return res
}

package props

import (
	"encoding/json"
	"fmt"
	"os"
	"path/filepath"
	"reflect"
	"regexp"
	"sort"
	"strings"
	"time"
	"syscall"
)

// StepOut is everything one executed op produced.
type StepOut struct {
	Op       Op              `json:"op"`
	Cmd      Cmd             `json:"cmd"`
	Exit     int             `json:"exit"`
	Stdout   string          `json:"stdout"`
	Stderr   string          `json:"stderr"`
	Decision string          `json:"decision"`
	Reasons  []Reason        `json:"reasons,omitempty"`
	Accepted bool            `json:"accepted"`
	Viol     []Violation     `json:"violations,omitempty"`
	Abort    string          `json:"abort,omitempty"` // history cannot continue (not a violation)
	Labels   []string        `json:"labels,omitempty"`
	Post     *Snapshot       `json:"-"`
	Touched  map[string]bool `json:"-"`
	NewIDs   []string        `json:"new_ids,omitempty"`
}

var idRe = regexp.MustCompile(`^[A-Z0-9]{6}$`)

// homeProp names the property that speaks about op succeeding at all.
func homeProp(op Op) string {
	switch op.Kind {
	case "new_task", "new_epic", "set":
		switch {
		case op.State != nil || op.Claim != nil:
			return "C06"
		case op.Epic != nil:
			return "C14"
		case op.ResultPath != nil:
			return "C20"
		default:
			return "C17"
		}
	case "claim_id":
		return "C06"
	case "claim":
		return "C08"
	case "sequence", "sequence_rm":
		return "C07"
	case "plan":
		return "C11"
	case "prune", "prune_yes":
		return "C09"
	case "compact":
		return "C05"
	case "init":
		return "C18"
	}
	return "C12"
}

func fieldProp(field string) string {
	switch field {
	case "state", "claimed_by", "claimed_at":
		return "C06"
	case "epic_id":
		return "C14"
	case "deps", "rdeps":
		return "C07"
	case "title", "body":
		return "C17"
	case "results":
		return "C20"
	}
	return "C12"
}

func holdLock(root string) (release func()) {
	p := filepath.Join(root, ".ergo", "lock")
	f, err := os.OpenFile(p, os.O_RDONLY|os.O_CREATE, 0o644)
	if err != nil {
		return func() {}
	}
	if err := syscall.Flock(int(f.Fd()), syscall.LOCK_EX); err != nil {
		f.Close()
		return func() {}
	}
	return func() { _ = syscall.Flock(int(f.Fd()), syscall.LOCK_UN); f.Close() }
}

func asString(v any) string {
	s, _ := v.(string)
	return s
}

// checkProcess looks for crashes: death by signal, a Go panic trace, or a hang.
func checkProcess(res Res) []Violation {
	var v []Violation
	if res.TimedOut {
		v = append(v, Violation{"C12", "command did not terminate within the limit"})
	} else if res.Signaled {
		v = append(v, Violation{"C12", fmt.Sprintf("command killed by signal (status %d)", res.Code)})
	}
	if strings.Contains(res.Stderr, "panic:") || strings.Contains(res.Stderr, "goroutine 1 [") || strings.Contains(res.Stdout, "goroutine 1 [") {
		v = append(v, Violation{"C12", "command panicked: " + clip(res.Stderr, 300)})
	}
	return v
}

// checkJSONContract is the output half of C16.
func checkJSONContract(res Res) (reply map[string]any, v []Violation) {
	if res.OK() {
		var val any
		if err := StrictJSON(res.Stdout, &val); err != nil {
			return nil, []Violation{{"C16", fmt.Sprintf("success but stdout is not exactly one JSON value (%v): %q", err, clip(res.Stdout, 200))}}
		}
		m, _ := val.(map[string]any)
		return m, nil
	}
	if strings.TrimSpace(res.Stderr) == "" {
		v = append(v, Violation{"C16", "failure without an explanation on stderr"})
	}
	if strings.TrimSpace(res.Stdout) != "" {
		var val any
		if err := StrictJSON(res.Stdout, &val); err != nil {
			v = append(v, Violation{"C16", fmt.Sprintf("failure with stdout that is not one JSON value: %q", clip(res.Stdout, 200))})
		} else if m, ok := val.(map[string]any); !ok || m["error"] == nil {
			v = append(v, Violation{"C16", fmt.Sprintf("failure with a stdout value that is not an error object: %q", clip(res.Stdout, 200))})
		}
	}
	return nil, v
}

// Step executes op against the real store and judges it against the model.
func (w *World) Step(pre *Snapshot, op Op) StepOut {
	w.StepNo++
	if op.Kind == "fork_compact" {
		return w.forkCompact(pre, op)
	}
	if op.Kind == "fault" {
		return w.stepFault(pre, op)
	}
	if op.Kind == "chop_newline" {
		return w.stepChop(pre, op)
	}
	if op.Kind == "debris" {
		return w.stepDebris(pre, op)
	}
	if op.Kind == "redate" {
		return w.stepRedate(pre, op)
	}
	out := w.stepMain(pre, op)
	if w.Twin != nil && out.Post != nil {
		out.Viol = append(out.Viol, w.stepTwin(op, &out)...)
	} else if w.Twin != nil {
		out.Viol = append(out.Viol, Violation{w.TwinProp, fmt.Sprintf("store unreadable after `%s` (exit %d): %s", strings.Join(out.Cmd.Args, " "), out.Exit, clip(out.Stderr, 200))})
	}
	return out
}

func (w *World) stepMain(pre *Snapshot, op Op) StepOut {
	w.writeFiles(op.Files)
	pred := w.Predict(pre, op)
	cmd := w.Build(op)
	out := StepOut{Op: op, Cmd: cmd, Decision: pred.Decision.String()}
	out.Reasons = append(append([]Reason{}, pred.Rejects...), pred.Eithers...)
	var release func()
	if op.HoldLock {
		release = holdLock(w.Root)
	}
	res := Run(cmd)
	if release != nil {
		release()
	}
	out.Exit, out.Stdout, out.Stderr = res.Code, clip(res.Stdout, 2000), clip(res.Stderr, 2000)
	out.Accepted = res.OK()
	out.Viol = append(out.Viol, checkProcess(res)...)
	var reply map[string]any
	if !op.NoJSON {
		var v []Violation
		reply, v = checkJSONContract(res)
		out.Viol = append(out.Viol, v...)
	}
	home := homeProp(op)

	switch pred.Decision {
	case MustAccept:
		if !out.Accepted {
			out.Viol = append(out.Viol, Violation{home, fmt.Sprintf("request that the documented rules accept was rejected: %s", clip(res.Stderr, 200))})
		}
	case MustReject:
		if out.Accepted {
			owned := false
			for _, r := range pred.Rejects {
				if r.Owner != "" {
					owned = true
					out.Viol = append(out.Viol, Violation{r.Owner, "request accepted although it must be rejected: " + r.Why})
				}
			}
			if !owned {
				out.Abort = "input the manual calls invalid was accepted: " + pred.Rejects[0].Why
			}
		}
	}

	post, err := TakeSnapshot(w.Root)
	if err != nil {
		out.Viol = append(out.Viol, Violation{home, "store unreadable after the command: " + err.Error()})
		if out.Accepted && !op.NoJSON && reply != nil && op.Kind != "compact" && op.Kind != "init" {
			out.Viol = append(out.Viol, Violation{"C16", "the command reported success with a JSON value, but the immediately following read shows nothing of it - the store is unreadable: " + clip(err.Error(), 200)})
		}
		return out
	}
	out.Post = post
	for _, inc := range post.Inconsistent {
		out.Viol = append(out.Viol, Violation{"C16", inc})
	}

	if !out.Accepted {
		// C10: a failing command changes nothing.
		for _, d := range DiffSnap(pre, post, DiffOpts{}) {
			out.Viol = append(out.Viol, Violation{"C10", "failed command changed the store: " + d})
		}
		if string(pre.Log) != string(post.Log) {
			out.Viol = append(out.Viol, Violation{"C10", fmt.Sprintf("failed command changed the log (%d -> %d bytes)", len(pre.Log), len(post.Log))})
		}
		out.Viol = append(out.Viol, CheckInvariants(post)...)
		return out
	}
	if out.Abort != "" || (pred.Decision == MustReject) {
		// accepted against the rules: the model has no expected state to compare with, but
		// the state invariants speak for themselves
		if out.Abort == "" {
			out.Abort = "accepted against the rules"
		}
		out.Viol = append(out.Viol, CheckInvariants(post)...)
		out.Viol = append(out.Viol, replyNamesWhatReadsShow(op, reply, post)...)
		return out
	}

	exp, touched, v := w.applyEffect(pre, post, op, reply)
	out.Viol = append(out.Viol, v...)
	out.Touched = touched
	if exp != nil {
		out.Viol = append(out.Viol, compareExpected(exp, post, pre, touched, op, w.Skewed)...)
	}
	out.Viol = append(out.Viol, CheckInvariants(post)...)
	out.Viol = append(out.Viol, checkLogGrowth(pre, post, op)...)

	// bookkeeping (plan ids in reply order so that Ref indices replay deterministically)
	if op.Kind == "plan" && reply != nil {
		if ep, ok := reply["epic"].(map[string]any); ok {
			if id := asString(ep["id"]); post.Items[id] != nil && !w.Seen[id] {
				w.AddID(id, op.N)
				out.NewIDs = append(out.NewIDs, id)
			}
		}
		if arr, ok := reply["tasks"].([]any); ok {
			for _, x := range arr {
				m, _ := x.(map[string]any)
				if id := asString(m["id"]); post.Items[id] != nil && !w.Seen[id] {
					w.AddID(id, op.N)
					out.NewIDs = append(out.NewIDs, id)
				}
			}
		}
	}
	for _, id := range post.SortedIDs() {
		if pre.Items[id] == nil && !w.Seen[id] {
			w.AddID(id, op.N)
			out.NewIDs = append(out.NewIDs, id)
		}
	}
	for id := range pre.Items {
		if post.Items[id] == nil {
			w.Pruned[id] = true
		}
	}
	return out
}

// checkLogGrowth is the "history only grows" part of C12.
func checkLogGrowth(pre, post *Snapshot, op Op) []Violation {
	if op.Kind == "compact" {
		return nil
	}
	before, err1 := ParseLog(pre.Log)
	after, err2 := ParseLog(post.Log)
	if err1 != nil || err2 != nil {
		return nil
	}
	if !op.IsMutation() {
		if string(pre.Log) != string(post.Log) {
			v := []Violation{{"C12", "read-only command changed the log"}}
			if op.Kind == "prune" {
				v = append(v, Violation{"C09", "the prune dry run wrote to the log"})
			}
			return v
		}
		return nil
	}
	if len(after) < len(before) {
		return []Violation{{"C12", fmt.Sprintf("log shrank from %d to %d events", len(before), len(after))}}
	}
	for i := range before {
		if !reflect.DeepEqual(before[i], after[i]) {
			return []Violation{{"C12", fmt.Sprintf("event %d of the earlier history changed", i+1)}}
		}
	}
	return nil
}

// applyEffect computes the expected post-state of an accepted command.
func (w *World) applyEffect(pre, post *Snapshot, op Op, reply map[string]any) (*Snapshot, map[string]bool, []Violation) {
	exp := pre.Clone()
	touched := map[string]bool{}
	var viol []Violation
	bad := func(prop, f string, a ...any) { viol = append(viol, Violation{prop, fmt.Sprintf(f, a...)}) }

	applyFields := func(it *Item, isNew bool) {
		if op.Title != nil && !isNew {
			it.Title = pickTitle(*op.Title, post.Items[it.ID], true)
		}
		if op.Body != nil && !isNew {
			it.Body = *op.Body
		}
		if op.Epic != nil && !isNew {
			it.EpicID = w.Resolve(*op.Epic)
		}
		var p Prediction
		sc := decideStateClaim(&p, it.State, it.ClaimedBy, op.State, op.Claim, op.Agent)
		if sc.touches {
			it.State, it.ClaimedBy = sc.newState, sc.newClaim
		}
		var p2 Prediction
		rv := decideResult(&p2, w.Root, op.ResultPath, op.ResultSummary)
		if rv.present {
			nr := ResultRec{Summary: rv.summary, Path: rv.cleanPath, Sha: rv.sha}
			if pi := post.Items[it.ID]; pi != nil && len(pi.Results) > 0 {
				got := pi.Results[0]
				nr.Mtime, nr.Git, nr.CreatedAt, nr.FileURL = got.Mtime, got.Git, got.CreatedAt, got.FileURL
				if path, err := fileURLPath(got.FileURL); err != nil || path != filepath.Join(w.Root, rv.cleanPath) {
					bad("C20", "file_url %q is not the file:// URL of %s", got.FileURL, filepath.Join(w.Root, rv.cleanPath))
				}
				if _, ok := timeParse(got.CreatedAt); !ok {
					bad("C20", "result created_at %q is not a timestamp", got.CreatedAt)
				}
			}
			it.Results = append([]ResultRec{nr}, it.Results...)
		}
	}

	switch op.Kind {
	case "new_task", "new_epic":
		id := asString(reply["id"])
		if !idRe.MatchString(id) || strings.ToUpper(id) != id {
			bad("C16", "new id %q is not six upper-case characters", id)
		}
		if w.Seen[id] || pre.Items[id] != nil {
			bad("C16", "new id %s was issued before", id)
			if w.Pruned[id] {
				bad("C09", "pruned id %s was issued again", id)
			}
		}
		if id == "" {
			return nil, nil, viol
		}
		it := &Item{ID: id, IsEpic: op.Kind == "new_epic", State: "todo", Deps: []string{}, RDeps: []string{}}
		if op.Title != nil {
			it.Title = pickTitle(*op.Title, post.Items[id], op.Mode != "json" && op.Mode != "")
		}
		if op.Body != nil {
			it.Body = *op.Body
		}
		if op.Epic != nil && !it.IsEpic {
			it.EpicID = w.Resolve(*op.Epic)
		}
		if pi := post.Items[id]; pi != nil {
			it.UUID, it.CreatedAt, it.UpdatedAt, it.ClaimedAt = pi.UUID, pi.CreatedAt, pi.UpdatedAt, pi.ClaimedAt
			if asString(reply["created_at"]) != pi.CreatedAt {
				bad("C16", "create reply created_at %q but show says %q", asString(reply["created_at"]), pi.CreatedAt)
			}
			if asString(reply["uuid"]) != pi.UUID {
				bad("C16", "create reply uuid differs from show")
			}
			if asString(reply["state"]) != pi.State {
				bad("C16", "create reply says state %q but show says %q", asString(reply["state"]), pi.State)
			}
			if asString(reply["epic_id"]) != pi.EpicID {
				bad("C16", "create reply says epic %q but show says %q", asString(reply["epic_id"]), pi.EpicID)
			}
			if asString(reply["title"]) != pi.Title || asString(reply["body"]) != pi.Body {
				bad("C16", "create reply title/body differ from show")
			}
			wantKind := "task"
			if it.IsEpic {
				wantKind = "epic"
			}
			if asString(reply["kind"]) != wantKind {
				bad("C16", "create reply kind %q", asString(reply["kind"]))
			}
		}
		exp.Items[id] = it
		if !it.IsEpic {
			applyFields(it, true)
		}
		touched[id] = true
	case "set":
		id := w.Resolve(*op.Target)
		it := exp.Items[id]
		applyFields(it, false)
		touched[id] = true
		if pi := post.Items[id]; pi != nil && reply != nil {
			if asString(reply["id"]) != id {
				bad("C16", "set reply names %q", asString(reply["id"]))
			}
			if asString(reply["state"]) != pi.State || asString(reply["claimed_by"]) != pi.ClaimedBy {
				bad("C16", "set reply says state=%q claimed_by=%q but show says %q/%q", asString(reply["state"]), asString(reply["claimed_by"]), pi.State, pi.ClaimedBy)
			}
		}
	case "claim_id":
		id := w.Resolve(*op.Target)
		it := exp.Items[id]
		it.State, it.ClaimedBy = "doing", op.Agent
		touched[id] = true
		viol = append(viol, checkClaimReply(reply, post, id, op.Agent)...)
	case "claim":
		epic := ""
		if op.EpicFilter != nil {
			epic = w.Resolve(*op.EpicFilter)
		}
		groups := ReadyInOrder(pre, epic)
		if asString(reply["status"]) == "no_ready" {
			if len(groups) > 0 {
				bad("C08", "claim says nothing is ready but %v is ready", groups[0])
			}
			break
		}
		id := asString(reply["id"])
		if len(groups) == 0 {
			bad("C08", "claim returned %s although no task is ready", id)
			return nil, nil, viol
		}
		if !hasStr(groups[0], id) {
			bad("C08", "claim returned %s but the oldest ready task is %v", id, groups[0])
		}
		it := exp.Items[id]
		if it == nil || it.IsEpic {
			bad("C08", "claim returned %q which is not a live task", id)
			return nil, nil, viol
		}
		it.State, it.ClaimedBy = "doing", op.Agent
		touched[id] = true
		viol = append(viol, checkClaimReply(reply, post, id, op.Agent)...)
	case "sequence", "sequence_rm":
		ids := make([]string, len(op.Refs))
		for i, r := range op.Refs {
			ids[i] = w.Resolve(r)
		}
		var want [][2]string
		for i := 0; i+1 < len(ids); i++ {
			from, to := ids[i+1], ids[i]
			want = append(want, [2]string{from, to})
			if it := exp.Items[from]; it != nil {
				if op.Kind == "sequence" {
					it.Deps = addStr(it.Deps, to)
				} else {
					it.Deps = delStr(it.Deps, to)
				}
			}
		}
		edges, _ := reply["edges"].([]any)
		if len(edges) != len(want) {
			bad("C16", "sequence reply lists %d edges, command named %d", len(edges), len(want))
		}
		for i, e := range edges {
			m, _ := e.(map[string]any)
			if i < len(want) && (asString(m["from_id"]) != want[i][0] || asString(m["to_id"]) != want[i][1]) {
				bad("C16", "sequence reply edge %d is %v->%v, expected %s->%s", i, m["from_id"], m["to_id"], want[i][0], want[i][1])
			}
		}
		for _, e := range edges {
			m, _ := e.(map[string]any)
			from, to := asString(m["from_id"]), asString(m["to_id"])
			if pi := post.Items[from]; pi != nil {
				if op.Kind == "sequence" && !hasStr(pi.Deps, to) {
					bad("C16", "sequence reports the edge %s -> %s, which a following show does not have", from, to)
				}
				if op.Kind == "sequence_rm" && hasStr(pi.Deps, to) {
					bad("C16", "sequence rm reports the edge %s -> %s removed, a following show still has it", from, to)
				}
			}
		}
		wantAction := "link"
		if op.Kind == "sequence_rm" {
			wantAction = "unlink"
		}
		if asString(reply["action"]) != wantAction {
			bad("C16", "sequence reply action %q", asString(reply["action"]))
		}
	case "plan":
		viol = append(viol, w.applyPlan(exp, post, op, reply, touched)...)
	case "prune", "prune_yes":
		want := PruneSet(pre)
		var got []string
		if arr, ok := reply["pruned_ids"].([]any); ok {
			for _, x := range arr {
				got = append(got, asString(x))
			}
		}
		sort.Strings(got)
		if strings.Join(got, ",") != strings.Join(want, ",") {
			bad("C09", "%s reports %v, the finished work is %v", op.Kind, got, want)
		}
		if dry, _ := reply["dry_run"].(bool); dry != (op.Kind == "prune") {
			bad("C16", "prune reply dry_run=%v", dry)
		}
		if op.Kind == "prune_yes" {
			for _, id := range want {
				delete(exp.Items, id)
			}
			for _, it := range exp.Items {
				for _, id := range want {
					it.Deps = delStr(it.Deps, id)
				}
			}
			exp.TaskOrder, exp.EpicOrder = nil, nil
		}
	case "compact", "init":
	}
	Recompute(exp)
	return exp, touched, viol
}

func pickTitle(input string, got *Item, trimAllowed bool) string {
	if trimAllowed {
		t := strings.TrimSpace(input)
		if got != nil && got.Title == input {
			return input
		}
		return t
	}
	return input
}

func checkClaimReply(reply map[string]any, post *Snapshot, id, agent string) []Violation {
	var v []Violation
	pi := post.Items[id]
	if pi == nil {
		return []Violation{{"C16", "claimed task " + id + " cannot be shown"}}
	}
	if asString(reply["id"]) != id {
		v = append(v, Violation{"C16", fmt.Sprintf("claim reply names %q, expected %s", asString(reply["id"]), id)})
	}
	if asString(reply["agent_id"]) != agent {
		v = append(v, Violation{"C16", fmt.Sprintf("claim reply agent %q, expected %q", asString(reply["agent_id"]), agent)})
	}
	if asString(reply["state"]) != pi.State || pi.State != "doing" {
		v = append(v, Violation{"C01", fmt.Sprintf("after claim the task is %s (reply says %q)", pi.State, asString(reply["state"]))})
	}
	if pi.ClaimedBy != agent {
		v = append(v, Violation{"C01", fmt.Sprintf("after claim by %q the task is claimed by %q", agent, pi.ClaimedBy)})
	}
	if asString(reply["claimed_at"]) != pi.ClaimedAt {
		v = append(v, Violation{"C16", fmt.Sprintf("claim reply claimed_at %q but show says %q", asString(reply["claimed_at"]), pi.ClaimedAt)})
	}
	if asString(reply["title"]) != pi.Title || asString(reply["body"]) != pi.Body || asString(reply["epic"]) != pi.EpicID {
		v = append(v, Violation{"C16", "claim reply title/body/epic differ from show"})
	}
	return v
}

// applyPlan adds the plan's epic and tasks to exp and checks the reply against post (C11).
func (w *World) applyPlan(exp, post *Snapshot, op Op, reply map[string]any, touched map[string]bool) []Violation {
	var viol []Violation
	bad := func(f string, a ...any) { viol = append(viol, Violation{"C11", fmt.Sprintf(f, a...)}) }
	d := op.Plan
	ep, _ := reply["epic"].(map[string]any)
	epicID := asString(ep["id"])
	if !idRe.MatchString(epicID) || w.Seen[epicID] {
		viol = append(viol, Violation{"C16", fmt.Sprintf("plan epic id %q is malformed or was issued before", epicID)})
	}
	if asString(ep["title"]) != *d.Title {
		bad("plan reply epic title %q, input %q", asString(ep["title"]), *d.Title)
	}
	e := &Item{ID: epicID, IsEpic: true, State: "todo", Title: *d.Title, Deps: []string{}, RDeps: []string{}}
	if d.Body != nil {
		e.Body = *d.Body
	}
	if pi := post.Items[epicID]; pi != nil {
		e.UUID, e.CreatedAt, e.UpdatedAt = pi.UUID, pi.CreatedAt, pi.UpdatedAt
		if asString(ep["uuid"]) != pi.UUID || asString(ep["created_at"]) != pi.CreatedAt {
			viol = append(viol, Violation{"C16", "plan reply epic uuid/created_at differ from show"})
		}
	}
	exp.Items[epicID] = e
	touched[epicID] = true
	tasks, _ := reply["tasks"].([]any)
	if len(tasks) != len(d.Tasks) {
		bad("plan reply lists %d tasks, input has %d", len(tasks), len(d.Tasks))
		return viol
	}
	byTitle := map[string]string{}
	seen := map[string]bool{epicID: true}
	prevCreated := ""
	for i, t := range d.Tasks {
		m, _ := tasks[i].(map[string]any)
		id := asString(m["id"])
		if !idRe.MatchString(id) || w.Seen[id] || seen[id] {
			viol = append(viol, Violation{"C16", fmt.Sprintf("plan task id %q is malformed or not fresh", id)})
		}
		seen[id] = true
		if asString(m["title"]) != *t.Title {
			bad("plan reply task %d title %q, input %q", i, asString(m["title"]), *t.Title)
		}
		byTitle[*t.Title] = id
		it := &Item{ID: id, EpicID: epicID, State: "todo", Title: *t.Title, Deps: []string{}, RDeps: []string{}}
		if t.Body != nil {
			it.Body = *t.Body
		}
		if pi := post.Items[id]; pi != nil {
			it.UUID, it.CreatedAt, it.UpdatedAt = pi.UUID, pi.CreatedAt, pi.UpdatedAt
			if prevCreated != "" && timeLess(pi.CreatedAt, prevCreated) {
				bad("task %d was created before task %d (input order not kept)", i, i-1)
			}
			prevCreated = pi.CreatedAt
		}
		exp.Items[id] = it
		touched[id] = true
	}
	wantEdges := map[string]bool{}
	for _, t := range d.Tasks {
		from := byTitle[*t.Title]
		for _, a := range t.After {
			to := byTitle[a]
			exp.Items[from].Deps = addStr(exp.Items[from].Deps, to)
			wantEdges[from+">"+to] = true
		}
	}
	gotEdges := map[string]bool{}
	if arr, ok := reply["edges"].([]any); ok {
		for _, x := range arr {
			m, _ := x.(map[string]any)
			k := asString(m["from_id"]) + ">" + asString(m["to_id"])
			if gotEdges[k] {
				bad("plan reply lists edge %s twice", k)
			}
			gotEdges[k] = true
		}
	}
	if !reflect.DeepEqual(wantEdges, gotEdges) {
		bad("plan reply edges %v, the after relation is %v", keys(gotEdges), keys(wantEdges))
	}
	if asString(reply["kind"]) != "plan" {
		viol = append(viol, Violation{"C16", "plan reply kind " + asString(reply["kind"])})
	}
	return viol
}

func keys(m map[string]bool) []string {
	out := make([]string, 0, len(m))
	for k := range m {
		out = append(out, k)
	}
	sort.Strings(out)
	return out
}

// compareExpected diffs the model's expected state with the observed one and attributes
// every difference to a property.
func compareExpected(exp, post, pre *Snapshot, touched map[string]bool, op Op, skewed bool) []Violation {
	var out []Violation
	home := homeProp(op)
	wholeOp := ""
	switch op.Kind {
	case "compact":
		wholeOp = "C05"
	case "prune_yes":
		wholeOp = "C09"
	case "prune":
		wholeOp = "C12"
	case "init":
		wholeOp = "C18"
	}
	ids := map[string]bool{}
	for id := range exp.Items {
		ids[id] = true
	}
	for id := range post.Items {
		ids[id] = true
	}
	for _, id := range keys(ids) {
		e, p := exp.Items[id], post.Items[id]
		switch {
		case e == nil:
			prop := home
			if op.Kind == "new_task" || op.Kind == "new_epic" {
				prop = "C16"
			}
			out = append(out, Violation{prop, fmt.Sprintf("%s exists after the command but should not (%s %q)", id, p.State, p.Title)})
			continue
		case p == nil:
			prop := home
			if pre.Items[id] != nil && wholeOp == "" && op.Kind != "plan" {
				prop = "C09" // a live item vanished without a prune
			}
			if op.Kind == "new_task" || op.Kind == "new_epic" {
				if pre.Items[id] == nil {
					prop = "C16"
				}
			}
			out = append(out, Violation{prop, fmt.Sprintf("%s should exist after the command but cannot be read", id)})
			continue
		}
		o := DiffOpts{}
		if touched[id] {
			o.IgnoreUpdatedAt, o.IgnoreClaimedAt = true, true
		}
		if skewed && op.Kind == "compact" {
			// with time stamps that do not grow along the log, which of an item's events is
			// "the latest" is not defined by the property (C05 speaks of logs the CLI produces)
			o.IgnoreUpdatedAt = true
		}
		for _, d := range diffItem(e, p, o) {
			field := ""
			if parts := strings.SplitN(d, " ", 3); len(parts) >= 2 {
				field = strings.TrimSuffix(parts[1], ":")
			}
			if field == "ready" || field == "blocked" {
				continue // judged on the observed state itself (C08)
			}
			prop := fieldProp(field)
			if strings.Contains(d, "results") || strings.Contains(d, "result[") {
				prop = "C20"
			}
			if wholeOp != "" {
				if prop == "C20" && wholeOp != "C20" {
					// a task's results stay attached, newest first, through every later command
					out = append(out, Violation{"C20", "expected vs observed after `" + op.Kind + "`: " + d})
				}
				prop = wholeOp
			} else if op.Kind == "plan" && pre.Items[id] != nil {
				if prop == "C20" {
					out = append(out, Violation{"C20", "expected vs observed after `plan`: " + d})
				}
				prop = "C11"
			} else if op.Kind == "plan" {
				prop = "C11"
			}
			out = append(out, Violation{prop, "expected vs observed: " + d})
		}
		if touched[id] {
			if pp := pre.Items[id]; pp != nil && !skewed && timeLess(p.UpdatedAt, pp.UpdatedAt) {
				out = append(out, Violation{"C12", fmt.Sprintf("%s: updated_at went backwards", id)})
			}
			if (p.ClaimedBy != "") != (p.ClaimedAt != "") {
				// claimed_at is shown exactly for claimed tasks
				out = append(out, Violation{"C16", fmt.Sprintf("%s: claimed_by=%q but claimed_at=%q", id, p.ClaimedBy, p.ClaimedAt)})
			}
		}
	}
	if wholeOp == "C05" || wholeOp == "C18" || wholeOp == "C12" {
		if strings.Join(pre.TaskOrder, ",") != strings.Join(post.TaskOrder, ",") || strings.Join(pre.EpicOrder, ",") != strings.Join(post.EpicOrder, ",") {
			out = append(out, Violation{wholeOp, "list order changed"})
		}
	}
	return out
}

// CheckInvariants evaluates the state invariants of C06, C07, C08, C14 on a snapshot.
func CheckInvariants(s *Snapshot) []Violation {
	var out []Violation
	bad := func(prop, f string, a ...any) { out = append(out, Violation{prop, fmt.Sprintf(f, a...)}) }
	for _, id := range s.SortedIDs() {
		it := s.Items[id]
		if it.IsEpic {
			if it.State != "todo" {
				bad("C06", "epic %s has state %q", id, it.State)
			}
			if it.ClaimedBy != "" {
				bad("C06", "epic %s is claimed by %q", id, it.ClaimedBy)
			}
			if it.EpicID != "" {
				bad("C14", "epic %s belongs to %q", id, it.EpicID)
			}
		} else {
			if !validState(it.State) {
				bad("C06", "task %s is in unknown state %q", id, it.State)
			}
			if needsClaim(it.State) && it.ClaimedBy == "" {
				bad("C06", "task %s is %s but unclaimed", id, it.State)
			}
			if forbidsClaim(it.State) && it.ClaimedBy != "" {
				bad("C06", "task %s is %s but claimed by %q", id, it.State, it.ClaimedBy)
			}
			if it.EpicID != "" {
				if ep := s.Items[it.EpicID]; ep == nil || !ep.IsEpic {
					bad("C14", "task %s names epic %q which is not a live epic", id, it.EpicID)
				}
			}
			if it.Ready != ModelReady(s, it) {
				bad("C08", "task %s: ready=%v but the manual's rule gives %v", id, it.Ready, ModelReady(s, it))
			}
			if it.Blocked != ModelBlocked(s, it) {
				bad("C08", "task %s: blocked=%v but the manual's rule gives %v", id, it.Blocked, ModelBlocked(s, it))
			}
		}
		for _, d := range it.Deps {
			o := s.Items[d]
			switch {
			case d == id:
				bad("C07", "%s depends on itself", id)
			case o == nil:
				bad("C07", "%s depends on %s which is not a live item", id, d)
			case o.IsEpic != it.IsEpic:
				bad("C07", "%s depends on %s of the other kind", id, d)
			case !hasStr(o.RDeps, id):
				bad("C07", "%s depends on %s but %s does not list it in rdeps", id, d, d)
			}
		}
		for _, r := range it.RDeps {
			if o := s.Items[r]; o == nil || !hasStr(o.Deps, id) {
				bad("C07", "%s lists %s in rdeps but %s does not depend on it", id, r, r)
			}
		}
		if !sort.StringsAreSorted(it.Deps) || !sort.StringsAreSorted(it.RDeps) {
			bad("C12", "%s: deps/rdeps not sorted", id)
		}
	}
	for _, id := range s.SortedIDs() {
		it := s.Items[id]
		for _, d := range it.Deps {
			if d != id && reaches(s, d, id, map[string]bool{}) {
				bad("C07", "dependency cycle through %s", id)
				break
			}
		}
	}
	// C15: unfinished work that nobody holds must offer a ready task.
	todo, held := 0, 0
	ready := 0
	for _, it := range s.Items {
		if it.IsEpic {
			continue
		}
		switch it.State {
		case "todo":
			todo++
			if it.ClaimedBy != "" {
				held++
			}
		case "doing", "blocked", "error":
			held++
		}
		if it.Ready {
			ready++
		}
	}
	if todo > 0 && held == 0 && ready == 0 {
		bad("C15", "%d todo tasks, nothing doing/blocked/error, and no task is ready", todo)
	}
	return out
}

// Explain renders a step for replay files and failure messages.
func (o StepOut) Explain() string {
	b, _ := json.Marshal(struct {
		Args     []string `json:"args"`
		Stdin    string   `json:"stdin,omitempty"`
		Exit     int      `json:"exit"`
		Decision string   `json:"decision"`
	}{o.Cmd.Args, clip(o.Cmd.Stdin, 300), o.Exit, o.Decision})
	return string(b)
}

// forkCompact creates the twin: a copy of the store, compacted. The copy must be
// observably identical to the original (C05), and compacting it again must not change
// the event sequence (link timestamps excepted: compaction stamps links with "now").
func (w *World) forkCompact(pre *Snapshot, op Op) StepOut {
	out := StepOut{Op: op, Decision: MustAccept.String(), Accepted: true, Post: pre}
	bad := func(f string, a ...any) { out.Viol = append(out.Viol, Violation{"C05", fmt.Sprintf(f, a...)}) }
	if w.Twin != nil {
		RemoveAll(w.Twin.Root)
	}
	tw := &World{Root: CloneStore(w.Root, "twin"), Pruned: map[string]bool{}, Seen: map[string]bool{}, Origin: map[string][2]int{}, ByOrig: map[[2]int]string{}}
	for id, o := range w.Origin {
		tw.Origin[id], tw.ByOrig[o] = o, id
	}
	for id := range w.Seen {
		tw.Seen[id] = true
	}
	for id := range w.Pruned {
		tw.Pruned[id] = true
	}
	w.Twin, w.TouchedSince, w.TwinProp = tw, map[string]bool{}, "C05"
	cmd := tw.Build(Op{Kind: "compact"})
	out.Cmd = cmd
	res := Run(cmd)
	out.Exit, out.Stdout, out.Stderr = res.Code, clip(res.Stdout, 500), clip(res.Stderr, 500)
	if !res.OK() {
		bad("compact failed on a copy of the store: %s", clip(res.Stderr, 300))
		return out
	}
	snapT, err := TakeSnapshot(tw.Root)
	if err != nil {
		bad("store unreadable after compact: %v", err)
		return out
	}
	for _, d := range DiffSnap(pre, snapT, DiffOpts{RootA: w.Root, RootB: tw.Root, IgnoreUpdatedAt: w.Skewed}) {
		bad("compact changed what a reader sees: %s", d)
	}
	for _, inc := range snapT.Inconsistent {
		bad("after compact: %s", inc)
	}
	// idempotence
	log1 := ReadLog(tw.Root)
	res2 := Run(cmd)
	if !res2.OK() {
		bad("second compact failed: %s", clip(res2.Stderr, 300))
		return out
	}
	log2 := ReadLog(tw.Root)
	e1, err1 := ParseLog(log1)
	e2, err2 := ParseLog(log2)
	if err1 != nil || err2 != nil {
		bad("compacted log does not parse: %v %v", err1, err2)
		return out
	}
	if len(e1) != len(e2) {
		bad("compacting a compacted log changed the number of events (%d -> %d)", len(e1), len(e2))
	} else {
		for i := range e1 {
			a, b := e1[i], e2[i]
			if a.Type == "link" || a.Type == "unlink" {
				a.TS, b.TS = "", ""
			}
			if !reflect.DeepEqual(a, b) {
				bad("compacting a compacted log changed event %d (%s)", i+1, a.Type)
				break
			}
		}
	}
	return out
}

// stepTwin applies op to the compacted twin and demands the same outcome as on the main
// store: same exit status, same observable state (new ids matched through the op that
// created them; timestamps of items touched since the fork are wall-clock values of two
// different runs and are not compared).
func (w *World) stepTwin(op Op, main *StepOut) []Violation {
	tw := w.Twin
	var out []Violation
	what := "compacted"
	if w.TwinProp == "C03" {
		what = "never-crashed"
	}
	bad := func(f string, a ...any) {
		out = append(out, Violation{w.TwinProp, strings.ReplaceAll(fmt.Sprintf(f, a...), "compacted", what)})
	}
	tw.writeFiles(op.Files)
	cmd := tw.Build(op)
	var release func()
	if op.HoldLock {
		release = holdLock(tw.Root)
	}
	res := Run(cmd)
	if release != nil {
		release()
	}
	if res.OK() != main.Accepted {
		bad("on the compacted store `%s` exits %d, on the other %d (%s)", strings.Join(cmd.Args, " "), res.Code, main.Exit, clip(res.Stderr, 200))
		return out
	}
	snapT, err := TakeSnapshot(tw.Root)
	if err != nil {
		bad("compacted store unreadable after `%s`: %v", strings.Join(cmd.Args, " "), err)
		return out
	}
	// learn the twin's new ids from its reply, in the same order as the main run did
	if res.OK() && !op.NoJSON {
		var reply map[string]any
		if StrictJSON(res.Stdout, &reply) == nil {
			var ids []string
			switch op.Kind {
			case "new_task", "new_epic":
				ids = append(ids, asString(reply["id"]))
			case "plan":
				if ep, ok := reply["epic"].(map[string]any); ok {
					ids = append(ids, asString(ep["id"]))
				}
				if arr, ok := reply["tasks"].([]any); ok {
					for _, x := range arr {
						m, _ := x.(map[string]any)
						ids = append(ids, asString(m["id"]))
					}
				}
			}
			for _, id := range ids {
				if id != "" && snapT.Items[id] != nil && !tw.Seen[id] {
					tw.AddID(id, op.N)
				}
			}
		}
	}
	for id := range main.Touched {
		w.TouchedSince[id] = true
	}
	for _, id := range main.NewIDs {
		w.TouchedSince[id] = true
	}
	rename := map[string]string{}
	for id, o := range tw.Origin {
		if mid, ok := w.ByOrig[o]; ok {
			rename[id] = mid
		}
	}
	mapped := snapT.RenameIDs(rename)
	for _, id := range keysOfItems(main.Post, mapped) {
		a, b := main.Post.Items[id], mapped.Items[id]
		if a == nil || b == nil {
			bad("after `%s`: item %s exists in only one of the two stores (this one and the compacted copy)", strings.Join(cmd.Args, " "), id)
			continue
		}
		o := DiffOpts{RootA: w.Root, RootB: tw.Root, IgnoreUpdatedAt: w.Skewed}
		if w.TouchedSince[id] {
			o.IgnoreUpdatedAt, o.IgnoreClaimedAt, o.IgnoreCreatedAt, o.IgnoreUUID, o.IgnoreResultTS = true, true, true, true, true
		}
		for _, d := range diffItemMasked(a, b, o, w.TouchedSince[id]) {
			bad("after `%s` the compacted store differs: %s", strings.Join(cmd.Args, " "), d)
		}
	}
	return out
}

func keysOfItems(a, b *Snapshot) []string {
	m := map[string]bool{}
	for id := range a.Items {
		m[id] = true
	}
	for id := range b.Items {
		m[id] = true
	}
	return keys(m)
}

// diffItemMasked is diffItem with the volatile parts of results (mtime is stable, created_at
// is wall clock) masked for items touched since the fork.
func diffItemMasked(a, b *Item, o DiffOpts, touched bool) []string {
	if !touched {
		return diffItem(a, b, o)
	}
	x, y := a.Clone(), b.Clone()
	return diffItem(x, y, o)
}

// stepChop removes the final newline of the log - what a writer leaves that was cut off
// one byte short of finishing. The last event is complete, readers honour it, so nothing
// observable may change, now or through whatever command comes next (the next step's own
// oracle judges that).
func (w *World) stepChop(pre *Snapshot, op Op) StepOut {
	out := StepOut{Op: op, Decision: "CHOP", Accepted: true, Post: pre}
	path := LogPath(w.Root)
	b, err := os.ReadFile(path)
	if err != nil || len(b) == 0 || b[len(b)-1] != '\n' {
		out.Labels = append(out.Labels, "chop.skipped")
		return out
	}
	if err := os.WriteFile(path, b[:len(b)-1], 0o644); err != nil {
		out.Labels = append(out.Labels, "chop.skipped")
		return out
	}
	out.Labels = append(out.Labels, "log_left_without_final_newline")
	post, err := TakeSnapshot(w.Root)
	if err != nil {
		out.Viol = append(out.Viol, Violation{"C03", "store unreadable when the final newline of the log is missing: " + err.Error()})
		out.Post = nil
		return out
	}
	for _, d := range DiffSnap(pre, post, DiffOpts{}) {
		out.Viol = append(out.Viol, Violation{"C03", "a log whose last (complete) event lacks its newline reads differently: " + d})
	}
	out.Post = post
	return out
}

// stepDebris leaves behind what a killed process can leave that is not state: a temp file
// of a whole-file rewrite (a byte prefix of the log cut anywhere, a longer file, a longer
// file ending in garbage) or an unparsable fragment after the log's last newline. Nothing
// observable may change, now or through whatever command comes next (the next step's own
// oracle judges that).
func (w *World) stepDebris(pre *Snapshot, op Op) StepOut {
	out := StepOut{Op: op, Decision: "DEBRIS", Accepted: true, Post: pre}
	path := LogPath(w.Root)
	b, err := os.ReadFile(path)
	if err != nil || len(b) < 40 {
		out.Labels = append(out.Labels, "debris.skipped")
		return out
	}
	lines, rest := LogLines(b)
	switch op.FaultKind {
	case "fragment":
		if rest != "" || len(lines) == 0 {
			out.Labels = append(out.Labels, "debris.skipped")
			return out
		}
		last := lines[len(lines)-1]
		if len(last) < 12 {
			out.Labels = append(out.Labels, "debris.skipped")
			return out
		}
		k := 1 + int(op.Frac*float64(len(last)-2))
		f, err := os.OpenFile(path, os.O_WRONLY|os.O_APPEND, 0o644)
		if err != nil {
			out.Labels = append(out.Labels, "debris.skipped")
			return out
		}
		_, _ = f.WriteString(last[:k])
		f.Close()
		out.Labels = append(out.Labels, "debris.fragment_after_last_newline")
	case "tmp_prefix":
		_ = os.WriteFile(path+".tmp", b[:int(op.Frac*float64(len(b)))], 0o644)
		out.Labels = append(out.Labels, "debris.temp_file_prefix_of_log")
	case "tmp_bigger":
		_ = os.WriteFile(path+".tmp", append(append([]byte{}, b...), b...), 0o644)
		out.Labels = append(out.Labels, "debris.temp_file_longer_than_log")
	default:
		c := append(append([]byte{}, b...), b[:len(b)/2+int(op.Frac*float64(len(b)/2-1))]...)
		_ = os.WriteFile(path+".tmp", c, 0o644)
		out.Labels = append(out.Labels, "debris.temp_file_longer_ending_mid_line")
	}
	post, err := TakeSnapshot(w.Root)
	if err != nil {
		out.Viol = append(out.Viol, Violation{"C03", "store unreadable with crash debris (" + op.FaultKind + ") lying around: " + err.Error()})
		out.Post = nil
		return out
	}
	for _, d := range DiffSnap(pre, post, DiffOpts{}) {
		out.Viol = append(out.Viol, Violation{"C03", "crash debris (" + op.FaultKind + ") changes what readers see: " + d})
	}
	out.Post = post
	return out
}

// stepRedate moves the time stamps of the last command's events into the future: that
// command ran on a host whose clock is ahead and its lines came over by git. Replay goes by
// log order, so nothing but the time fields (and the orders derived from creation time)
// may change; what the store shows afterwards is the new reference, and every later command
// - stamped with the real, now "older" clock - is judged by its own oracle as usual.
func (w *World) stepRedate(pre *Snapshot, op Op) StepOut {
	out := StepOut{Op: op, Decision: "REDATE", Accepted: true, Post: pre}
	by := []time.Duration{95 * time.Minute, 26 * time.Hour, 40 * 24 * time.Hour}[int(op.Frac)%3]
	n, ok := redateLastCommand(w.Root, by)
	if !ok {
		out.Labels = append(out.Labels, "redate.skipped")
		return out
	}
	w.Skewed = true
	out.Labels = append(out.Labels, "last_command_redated_into_the_future")
	post, err := TakeSnapshot(w.Root)
	if err != nil {
		out.Viol = append(out.Viol, Violation{"C12", "store unreadable after the last command's time stamps were moved forward: " + err.Error()})
		out.Post = nil
		return out
	}
	for _, d := range DiffSnap(pre, post, DiffOpts{IgnoreUpdatedAt: true, IgnoreClaimedAt: true, IgnoreCreatedAt: true, IgnoreResultTS: true, IgnoreOrder: true}) {
		out.Viol = append(out.Viol, Violation{"C12", fmt.Sprintf("moving the time stamps of the last %d event(s) forward changed more than time fields: %s", n, d)})
	}
	out.Post = post
	return out
}

// redateLastCommand adds by to every time stamp of the log's last group of lines that
// share the final line's "ts" (one command stamps all its events alike). The log must end
// in a newline.
func redateLastCommand(root string, by time.Duration) (n int, ok bool) {
	path := LogPath(root)
	b, err := os.ReadFile(path)
	lines, rest := LogLines(b)
	if err != nil || rest != "" || len(lines) == 0 {
		return 0, false
	}
	var last LogEvent
	if json.Unmarshal([]byte(lines[len(lines)-1]), &last) != nil {
		return 0, false
	}
	ts, good := timeParse(last.TS)
	if !good {
		return 0, false
	}
	shifted := ts.Add(by).UTC().Format(time.RFC3339Nano)
	for i := len(lines) - 1; i >= 0; i-- {
		var ev LogEvent
		if json.Unmarshal([]byte(lines[i]), &ev) != nil || ev.TS != last.TS {
			break
		}
		lines[i] = strings.ReplaceAll(lines[i], `"`+last.TS+`"`, `"`+shifted+`"`)
		n++
	}
	if err := os.WriteFile(path, []byte(strings.Join(lines, "\n")+"\n"), 0o644); err != nil {
		return 0, false
	}
	return n, true
}

// replyNamesWhatReadsShow is the part of "the reply tells the truth" that needs no expected
// state: ids and edges a success value names must exist in the following read. It is used
// where a request was accepted against the rules and the model has nothing to compare with.
func replyNamesWhatReadsShow(op Op, reply map[string]any, post *Snapshot) []Violation {
	var out []Violation
	if reply == nil {
		return nil
	}
	if id := asString(reply["id"]); id != "" && (op.Kind == "new_task" || op.Kind == "new_epic" || op.Kind == "set" || op.Kind == "claim_id") && post.Items[id] == nil {
		out = append(out, Violation{"C16", fmt.Sprintf("the reply names id %q, which the following read does not show", id)})
	}
	if edges, ok := reply["edges"].([]any); ok && (op.Kind == "sequence" || op.Kind == "sequence_rm") {
		for _, e := range edges {
			m, _ := e.(map[string]any)
			from, to := asString(m["from_id"]), asString(m["to_id"])
			switch {
			case post.Items[from] == nil || post.Items[to] == nil:
				out = append(out, Violation{"C16", fmt.Sprintf("the reply reports the edge %q -> %q; the following read shows no item with id %q", from, to, map[bool]string{true: from, false: to}[post.Items[from] == nil])})
			case op.Kind == "sequence" && !hasStr(post.Items[from].Deps, to):
				out = append(out, Violation{"C16", fmt.Sprintf("the reply reports the edge %s -> %s; the following read of %s does not list it", from, to, from)})
			}
		}
	}
	return out
}

package props

import (
	"encoding/json"
	"fmt"
	"sort"
	"strings"
	"sync"
	"time"

	"pgregory.net/rapid"
)

// ---- concurrent executions and their linearizability oracle ----

// ConcCmd is one command of a concurrent execution.
type ConcCmd struct {
	Op    Op      `json:"op"`
	Park  *Inject `json:"park,omitempty"` // where the controller parks it (nil = runs freely)
	Start int     `json:"start"`          // logical time the process was started
	End   int     `json:"end"`            // logical time it had exited
	Exit  int     `json:"exit"`
	Out   string  `json:"stdout"`
	Err   string  `json:"stderr"`
	Parks int     `json:"parks_observed"`
	Hung  bool    `json:"hung,omitempty"`
	// Commit: logical time at which the log changed while this process was the one running
	// (0 = never, or free-running). State is the replay of the log, so this is the instant
	// the command took effect; the controller runs one process at a time, so it is exact.
	Commit int      `json:"commit,omitempty"`
	Calls  []string `json:"calls,omitempty"`
	reply  map[string]any
	cmd    Cmd
}

func (c ConcCmd) ok() bool       { return c.Exit == 0 && !c.Hung }
func (c ConcCmd) lockBusy() bool { return strings.Contains(c.Err, "lock busy") }

var emptySnap = &Snapshot{Items: map[string]*Item{}}

// linearize searches for a total order of the successful commands, consistent with real
// time, in which the sequential model reproduces every reply and the final state.
// It returns nil when one exists, else the discrepancies under the best order tried.
func (w *World) linearize(pre, final *Snapshot, cmds []ConcCmd) []string {
	var live []int
	var problems []string
	for i, c := range cmds {
		if c.Hung {
			problems = append(problems, fmt.Sprintf("command %d (%s) did not return", i, strings.Join(c.cmd.Args, " ")))
			continue
		}
		if c.ok() {
			live = append(live, i)
		}
	}
	if len(problems) > 0 {
		return problems
	}
	before := func(a, b int) bool {
		if cmds[a].End < cmds[b].Start {
			return true
		}
		return cmds[a].Commit > 0 && cmds[b].Commit > 0 && cmds[a].Commit < cmds[b].Commit
	}
	best := []string{"no order tried"}
	bestN := 1 << 30
	var perm func(prefix []int, rest []int) bool
	tryOrder := func(order []int) bool {
		d, states := w.replayOrder(pre, final, cmds, order)
		if len(d) == 0 {
			// a failed command must be justifiable somewhere along this order: lock busy,
			// or the rules do not demand acceptance in at least one state the store passed
			// through (one-sided: its real-time window is not used to narrow the states)
			for i, c := range cmds {
				if c.ok() || c.Hung || c.lockBusy() || c.Op.Kind == "claim" {
					continue
				}
				if c.Park != nil && c.Park.Kind == "error" {
					continue // it failed because the harness made one of its system calls fail
				}
				justified := false
				for _, st := range states {
					if w.Predict(st, c.Op).Decision != MustAccept {
						justified = true
						break
					}
				}
				if !justified {
					d = append(d, fmt.Sprintf("#%d `%s` failed (%s) although the rules accept it in every state along this order", i, strings.Join(c.cmd.Args, " "), clip(c.Err, 160)))
				}
			}
		}
		if len(d) == 0 {
			return true
		}
		if len(d) < bestN {
			bestN = len(d)
			names := make([]string, len(order))
			for i, x := range order {
				names[i] = fmt.Sprintf("#%d", x)
			}
			best = append([]string{"order " + strings.Join(names, " < ") + ":"}, d...)
		}
		return false
	}
	perm = func(prefix []int, rest []int) bool {
		if len(rest) == 0 {
			return tryOrder(prefix)
		}
		for i, x := range rest {
			ok := true
			for _, y := range rest {
				if y != x && before(y, x) {
					ok = false
					break
				}
			}
			if !ok {
				continue
			}
			nr := append(append([]int{}, rest[:i]...), rest[i+1:]...)
			if perm(append(append([]int{}, prefix...), x), nr) {
				return true
			}
		}
		return false
	}
	if perm(nil, live) {
		return nil
	}
	return best
}

// replayOrder runs the model over the commands in the given order.
func (w *World) replayOrder(pre, final *Snapshot, cmds []ConcCmd, order []int) ([]string, []*Snapshot) {
	var out []string
	cur := pre.Clone()
	states := []*Snapshot{cur}
	touched := map[string]bool{}
	scratch := &World{Root: w.Root, Origin: w.Origin, ByOrig: w.ByOrig, Pruned: map[string]bool{}, Seen: map[string]bool{}}
	for id := range w.Pruned {
		scratch.Pruned[id] = true
	}
	for id := range w.Seen {
		scratch.Seen[id] = true
	}
	for _, i := range order {
		c := cmds[i]
		pred := scratch.Predict(cur, c.Op)
		if pred.Decision == MustReject {
			out = append(out, fmt.Sprintf("#%d `%s` succeeded, but at this position the rules reject it (%s)", i, strings.Join(c.cmd.Args, " "), pred.Rejects[0].Why))
			return out, states
		}
		exp, t, viol := scratch.applyEffect(cur, final, c.Op, c.reply)
		for _, v := range viol {
			if v.Prop == "C16" || v.Prop == "C01" || v.Prop == "C20" {
				continue // reply-vs-read checks need the state right after the command
			}
			out = append(out, fmt.Sprintf("#%d `%s`: %s", i, strings.Join(c.cmd.Args, " "), v.Msg))
		}
		if exp == nil {
			out = append(out, fmt.Sprintf("#%d: no expected state", i))
			return out, states
		}
		for id := range t {
			touched[id] = true
		}
		for id := range exp.Items {
			if cur.Items[id] == nil {
				scratch.Seen[id] = true
			}
		}
		for id := range cur.Items {
			if exp.Items[id] == nil {
				scratch.Pruned[id] = true
			}
		}
		cur = exp
		states = append(states, cur)
	}
	// final state
	for _, id := range keysOfItems(cur, final) {
		e, p := cur.Items[id], final.Items[id]
		switch {
		case e == nil:
			out = append(out, fmt.Sprintf("%s exists at the end but no acknowledged command created it", id))
		case p == nil:
			out = append(out, fmt.Sprintf("%s should exist at the end (acknowledged) but is gone", id))
		default:
			o := DiffOpts{IgnoreUpdatedAt: w.Skewed} // which stamp is "latest" is undefined when time does not grow along the log
			if touched[id] || pre.Items[id] == nil {
				o.IgnoreUpdatedAt, o.IgnoreClaimedAt, o.IgnoreCreatedAt, o.IgnoreUUID, o.IgnoreResultTS = true, true, true, true, true
			}
			// results carry run-time values (mtime, url); compare their stable part
			e2, p2 := e.Clone(), p.Clone()
			if touched[id] {
				for k := range e2.Results {
					if k < len(p2.Results) {
						e2.Results[k].FileURL, e2.Results[k].Mtime, e2.Results[k].Git = p2.Results[k].FileURL, p2.Results[k].Mtime, p2.Results[k].Git
					}
				}
			}
			for _, d := range diffItem(e2, p2, o) {
				if strings.Contains(d, " ready ") || strings.Contains(d, " blocked ") {
					continue
				}
				out = append(out, "final state: "+d)
			}
		}
	}
	return out, states
}

// ---- controlled schedules ----

// Schedule is the list of controller actions of one concurrent execution: "start i"
// launches command i (it runs until it parks or exits), "resume i" continues a parked one
// until its next park or exit. Exactly one process runs at any time.
type SchedAction struct {
	Act string `json:"act"` // start | resume
	I   int    `json:"i"`
}

type schedRun struct {
	growth      []string // violations of "history only grows" seen between controller actions
	cmds        []ConcCmd
	actions     []SchedAction
	lockOverlap bool // some command ran while another was parked inside its lock section
	// mutex: a command changed the log while another one was stopped inside its lock section
	// (exclusive flock taken on a descriptor that is still open, not yet released)
	mutex []string
	// sameLog: a read gave different output although the log's bytes were the same (probed
	// between controller actions when probeReads is set)
	sameLog []string
	// uncontrolled: a process the controller believed stopped made system calls while
	// another one ran (strace's per-thread stop lines can make a running process look
	// parked). Which process changed the log is then unknown: the execution is not judged.
	uncontrolled bool
}

// probeReads makes runSchedule run a read between controller actions and compare it with
// the same read on the same log bytes earlier in the execution.
var probeReads bool

// holdsLock says whether a process whose trace is calls holds the exclusive flock right
// now: its last successful LOCK_EX on a descriptor that was neither unlocked nor closed.
func holdsLock(calls []TraceCall) bool {
	held := ""
	for _, c := range calls {
		fd := strings.TrimSpace(strings.SplitN(c.Args, ",", 2)[0])
		switch {
		case c.Name == "flock" && strings.Contains(c.Args, "LOCK_EX") && strings.HasPrefix(c.Ret, "0"):
			held = fd
		case c.Name == "flock" && strings.Contains(c.Args, "LOCK_UN") && fd == held:
			held = ""
		case c.Name == "close" && fd == held:
			held = ""
		}
	}
	return held != ""
}

const hangLimit = 25 * time.Second

// runSchedule executes cmds under the controller.
func (w *World) runSchedule(cmds []ConcCmd, actions []SchedAction) schedRun {
	sr := schedRun{cmds: cmds, actions: actions}
	procs := make([]*Parked, len(cmds))
	clock := 0
	parkedInLock := func() bool {
		for i, p := range procs {
			if p == nil || cmds[i].End > 0 {
				continue
			}
			calls, _, _ := ParseTrace(p.traceRaw())
			if holdsLock(calls) {
				return true
			}
		}
		return false
	}
	holderOtherThan := func(i int) int {
		for j, p := range procs {
			if j == i || p == nil || cmds[j].End > 0 {
				continue
			}
			calls, _, _ := ParseTrace(p.traceRaw())
			if holdsLock(calls) {
				return j
			}
		}
		return -1
	}
	finish := func(i int, exited bool, hung bool) {
		if !exited && !hung {
			cmds[i].Parks++
			return
		}
		p := procs[i]
		if hung {
			cmds[i].Hung = true
			p.Kill()
		}
		res := p.result()
		clock++
		cmds[i].End = clock
		cmds[i].Exit, cmds[i].Out, cmds[i].Err = res.Code, res.Stdout, res.Stderr
		for _, c := range p.calls() {
			cmds[i].Calls = append(cmds[i].Calls, c.String())
		}
		if res.OK() {
			var m map[string]any
			if StrictJSON(res.Stdout, &m) == nil {
				cmds[i].reply = m
			}
		}
		p.Close()
	}
	lastLog := string(ReadLog(w.Root))
	noteCommit := func(i int) {
		if now := string(ReadLog(w.Root)); now != lastLog {
			if cmds[i].Op.Kind != "compact" {
				completeOnly, _ := LogLines([]byte(lastLog))
				evB, e1 := ParseLog([]byte(strings.Join(completeOnly, "\n") + "\n"))
				evA, e2 := ParseLog([]byte(now))
				if e1 == nil && e2 == nil {
					if len(evA) < len(evB) {
						sr.growth = append(sr.growth, fmt.Sprintf("while `%s` ran the log shrank from %d to %d events", strings.Join(cmds[i].cmd.Args, " "), len(evB), len(evA)))
					} else {
						for k := range evB {
							a, _ := json.Marshal(evB[k])
							b, _ := json.Marshal(evA[k])
							if string(a) != string(b) {
								sr.growth = append(sr.growth, fmt.Sprintf("while `%s` ran, event %d of the recorded history changed or vanished", strings.Join(cmds[i].cmd.Args, " "), k+1))
								break
							}
						}
					}
				}
			}
			lastLog = now
			if j := holderOtherThan(i); j >= 0 {
				sr.mutex = append(sr.mutex, fmt.Sprintf("`%s` changed the log while `%s` was stopped inside its lock section (exclusive flock held, not released)", strings.Join(cmds[i].cmd.Args, " "), strings.Join(cmds[j].cmd.Args, " ")))
			}
			if cmds[i].Commit == 0 {
				clock++
				cmds[i].Commit = clock
			}
		}
	}
	seenOut := map[string]string{}
	probe := func(when string) {
		if !probeReads || len(sr.sameLog) > 0 {
			return
		}
		for _, args := range [][]string{{"--json", "list", "--all"}, {"list", "--all"}} {
			r := Run(Cmd{Args: args, Dir: w.Root})
			key := strings.Join(args, " ") + "|" + string(ReadLog(w.Root))
			got := fmt.Sprintf("exit %d|%s|%s", r.Code, r.Stdout, r.Stderr)
			if prev, ok := seenOut[key]; ok && prev != got {
				sr.sameLog = append(sr.sameLog, fmt.Sprintf("`%s` %s: the log has the same bytes as at an earlier read, the output differs: %s", strings.Join(args, " "), when, clip(diffHint(prev, got), 300)))
			} else if !ok {
				seenOut[key] = got
			}
		}
	}
	probe("before the commands start")
	callsOf := func(j int) int {
		calls, _, _ := ParseTrace(procs[j].traceRaw())
		return len(calls)
	}
	for _, a := range actions {
		i := a.I
		probe(fmt.Sprintf("before `%s %d`", a.Act, a.I))
		before := map[int]int{}
		for j, p := range procs {
			if j != i && p != nil && cmds[j].End == 0 {
				before[j] = callsOf(j)
			}
		}
		checkStill := func() {
			for j, n := range before {
				if procs[j] != nil && callsOf(j) != n {
					sr.uncontrolled = true
				}
			}
		}
		switch a.Act {
		case "start":
			if procs[i] != nil {
				continue
			}
			if parkedInLock() {
				sr.lockOverlap = true
			}
			w.writeFiles(cmds[i].Op.Files)
			cmds[i].cmd = w.Build(cmds[i].Op)
			clock++
			cmds[i].Start = clock
			p, err := StartParked(cmds[i].cmd, w.Root, cmds[i].Park)
			if err != nil {
				cmds[i].Hung = true
				cmds[i].Err = "harness: " + err.Error()
				clock++
				cmds[i].End = clock
				continue
			}
			procs[i] = p
			exited, timedOut := p.WaitParkedOrExit(hangLimit)
			checkStill()
			noteCommit(i)
			finish(i, exited, timedOut)
		case "resume":
			p := procs[i]
			if p == nil || cmds[i].End > 0 {
				continue
			}
			p.Resume()
			exited, timedOut := p.WaitParkedOrExit(hangLimit)
			checkStill()
			noteCommit(i)
			finish(i, exited, timedOut)
		}
	}
	// drain: every process must finish
	for i, p := range procs {
		if p == nil || cmds[i].End > 0 {
			continue
		}
		_, _, timedOut := p.Finish(hangLimit)
		noteCommit(i)
		finish(i, !timedOut, timedOut)
	}
	sr.cmds = cmds
	return sr
}

// parkCandidates lists the (syscall, k) pairs at which a command can be parked, from an
// undisturbed traced run of the same command on a copy of the store.
// lastLockAcquire returns the index (into the candidates of parkCandidatesEx) of the last
// flock call that acquires a lock, or -1.
func (w *World) parkCandidatesEx(op Op) (pts []Inject, lastAcquire int) {
	pts, lastAcquire, _ = w.parkCandidatesGap(op)
	return
}

// parkCandidatesGap also returns the index of the first unlock call (-1 if none): for a
// command with more than one lock section the points from there to the last acquisition
// are the gap between its sections.
func (w *World) parkCandidatesGap(op Op) (pts []Inject, lastAcquire int, firstUnlock int) {
	firstUnlock = -1
	c := w.At(CloneStore(w.Root, "probe"))
	defer RemoveAll(c.Root)
	c.writeFiles(op.Files)
	out := StraceRun(c.Build(op), c.Root, nil)
	count := map[string]int{}
	lastAcquire = -1
	for _, call := range out.Calls {
		if call.Name == "close" {
			continue
		}
		count[call.Name]++
		pts = append(pts, Inject{Syscall: call.Name, When: count[call.Name], Kind: "stop"})
		if call.Name == "flock" && !strings.Contains(call.Args, "LOCK_UN") {
			lastAcquire = len(pts) - 1
		}
		if call.Name == "flock" && strings.Contains(call.Args, "LOCK_UN") && firstUnlock < 0 {
			firstUnlock = len(pts) - 1
		}
	}
	return
}

func (w *World) parkCandidates(op Op) []Inject {
	c := w.At(CloneStore(w.Root, "probe"))
	defer RemoveAll(c.Root)
	c.writeFiles(op.Files)
	out := StraceRun(c.Build(op), c.Root, nil)
	count := map[string]int{}
	var pts []Inject
	for _, call := range out.Calls {
		switch call.Name {
		case "close":
			continue
		}
		count[call.Name]++
		pts = append(pts, Inject{Syscall: call.Name, When: count[call.Name], Kind: "stop"})
	}
	return pts
}

// ---- free-running executions ----

// runFree starts all commands at once without tracing (the OS picks the schedule).
func (w *World) runFree(cmds []ConcCmd) []ConcCmd {
	var wg sync.WaitGroup
	type stamp struct{ s, e time.Time }
	st := make([]stamp, len(cmds))
	for i := range cmds {
		w.writeFiles(cmds[i].Op.Files)
		cmds[i].cmd = w.Build(cmds[i].Op)
	}
	startGate := make(chan struct{})
	for i := range cmds {
		wg.Add(1)
		go func(i int) {
			defer wg.Done()
			<-startGate
			st[i].s = time.Now()
			res := Run(cmds[i].cmd)
			st[i].e = time.Now()
			cmds[i].Exit, cmds[i].Out, cmds[i].Err, cmds[i].Hung = res.Code, res.Stdout, res.Stderr, res.TimedOut
			if res.OK() {
				var m map[string]any
				if StrictJSON(res.Stdout, &m) == nil {
					cmds[i].reply = m
				}
			}
		}(i)
	}
	close(startGate)
	wg.Wait()
	// logical times from wall-clock stamps (measured intervals contain the true ones)
	type ev struct {
		t     time.Time
		i     int
		start bool
	}
	var evs []ev
	for i := range cmds {
		evs = append(evs, ev{st[i].s, i, true}, ev{st[i].e, i, false})
	}
	sort.Slice(evs, func(a, b int) bool { return evs[a].t.Before(evs[b].t) })
	for k, e := range evs {
		if e.start {
			cmds[e.i].Start = k + 1
		} else {
			cmds[e.i].End = k + 1
		}
	}
	return cmds
}

// genConcOps draws the commands of a concurrent execution.
func genConcOps(t *rapid.T, w *World, pre *Snapshot, kinds map[string]int, n int) []Op {
	var ops []Op
	prof := Profile{Name: "concurrent", Weights: kinds, BadRef: 2, Spoil: 0, Results: 5}
	for i := 0; i < n; i++ {
		op := genOp(t, w, pre, prof)
		op.N = 1000 + i
		op.HoldLock = false
		ops = append(ops, op)
	}
	return ops
}

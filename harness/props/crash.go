package props

import (
	"encoding/json"
	"fmt"
	"os"
	"path/filepath"
	"sort"
	"strings"

	"pgregory.net/rapid"
)

// CanonItem / CanonSnap: a snapshot with everything that legitimately differs between
// two runs of the same command on copies of a store removed: ids of items that did not
// exist before the command are replaced by their (unique, generated) titles, wall-clock
// timestamps and uuids are dropped, file urls are made relative to the store root.
type CanonItem struct {
	Key       string
	IsEpic    bool
	Epic      string
	State     string
	ClaimedBy string
	Title     string
	Body      string
	Deps      []string
	RDeps     []string
	Results   []string
	Ready     bool
	Blocked   bool
}

func CanonSnap(s *Snapshot, base *Snapshot, root string) map[string]CanonItem {
	key := func(id string) string {
		if id == "" {
			return ""
		}
		if base != nil && base.Items[id] != nil {
			return id
		}
		if it := s.Items[id]; it != nil {
			return "new:" + it.Title
		}
		return "gone:" + id
	}
	out := map[string]CanonItem{}
	for id, it := range s.Items {
		c := CanonItem{Key: key(id), IsEpic: it.IsEpic, Epic: key(it.EpicID), State: it.State, ClaimedBy: it.ClaimedBy, Title: it.Title, Body: it.Body, Ready: it.Ready, Blocked: it.Blocked}
		for _, d := range it.Deps {
			c.Deps = append(c.Deps, key(d))
		}
		for _, d := range it.RDeps {
			c.RDeps = append(c.RDeps, key(d))
		}
		sort.Strings(c.Deps)
		sort.Strings(c.RDeps)
		for _, r := range it.Results {
			c.Results = append(c.Results, fmt.Sprintf("%s|%s|%s|%s", r.Summary, r.Path, r.Sha, relURL(r.FileURL, root)))
		}
		out[c.Key] = c
	}
	return out
}

func canonDiff(a, b map[string]CanonItem) []string {
	var out []string
	ks := map[string]bool{}
	for k := range a {
		ks[k] = true
	}
	for k := range b {
		ks[k] = true
	}
	for _, k := range keys(ks) {
		x, okx := a[k]
		y, oky := b[k]
		switch {
		case !okx:
			out = append(out, fmt.Sprintf("%s only on the right (%s %q)", k, y.State, y.Title))
		case !oky:
			out = append(out, fmt.Sprintf("%s only on the left (%s %q)", k, x.State, x.Title))
		default:
			xb, _ := json.Marshal(x)
			yb, _ := json.Marshal(y)
			if string(xb) != string(yb) {
				out = append(out, fmt.Sprintf("%s: %s != %s", k, clip(string(xb), 260), clip(string(yb), 260)))
			}
		}
	}
	return out
}

// bigBody returns a body of n bytes (multi-event batches above 4 KiB leave the stdio
// buffer sizes most implementations use).
func bigBody(n int) string {
	var b strings.Builder
	for b.Len() < n {
		b.WriteString("lorem ipsum dolor sit amet, consectetur adipiscing elit — ")
	}
	return b.String()[:n]
}

// genMultiEventOp draws a command that records more than one event (C04's domain) and
// that the model expects to be accepted in state pre.
func genMultiEventOp(t *rapid.T, w *World, pre *Snapshot) Op {
	g := refGen{t, w, pre}
	tasks := g.ids(func(it *Item) bool { return !it.IsEpic })
	epics := g.ids(func(it *Item) bool { return it.IsEpic })
	var todo, claimable, finishedN []string
	for _, id := range tasks {
		it := pre.Items[id]
		if it.State == "todo" || it.State == "blocked" || it.State == "error" {
			claimable = append(claimable, id)
		}
		if it.State == "todo" {
			todo = append(todo, id)
		}
		if finished(it.State) {
			finishedN = append(finishedN, id)
		}
	}
	kinds := []string{"new_task_state", "new_task_state", "plan", "compact"}
	if len(ReadyInOrder(pre, "")) > 0 {
		kinds = append(kinds, "claim", "claim")
	}
	if len(claimable) > 0 {
		kinds = append(kinds, "claim_id")
	}
	var held []string
	for _, id := range tasks {
		if it := pre.Items[id]; it.ClaimedBy != "" && (it.State == "doing" || it.State == "error" || it.State == "blocked") {
			held = append(held, id)
		}
	}
	if len(held) > 0 {
		kinds = append(kinds, "claim_takeover", "claim_takeover")
	}
	if len(tasks) > 0 {
		kinds = append(kinds, "set_multi", "set_multi", "set_multi", "set_result")
	}
	if len(tasks) >= 3 {
		kinds = append(kinds, "sequence3")
	}
	if len(PruneSet(pre)) >= 2 {
		kinds = append(kinds, "prune_yes", "prune_yes")
	}
	agent := oneOf(t, agents, "agent")
	bodyOf := func() string {
		if pct(t, 35, "big") {
			return bigBody(between(t, 4200, 9000, "bigsize"))
		}
		return genBody(t, "body")
	}
	switch oneOf(t, kinds, "multi.kind") {
	case "claim":
		op := Op{Kind: "claim", Agent: agent}
		if pct(t, 25, "longagent") {
			op.Agent = strings.Repeat("agent-with-a-long-name-", 220)
		}
		return op
	case "claim_id":
		r := g.ref(oneOf(t, claimable, "target"))
		return Op{Kind: "claim_id", Target: &r, Agent: agent}
	case "claim_takeover":
		// `claim <id>` of a task another agent holds: old claim out, new claim in, state
		id := oneOf(t, held, "target")
		r := g.ref(id)
		other := "taker-over"
		if pre.Items[id].ClaimedBy == other {
			other = "second-taker"
		}
		return Op{Kind: "claim_id", Target: &r, Agent: other}
	case "set_multi":
		id := oneOf(t, tasks, "target")
		it := pre.Items[id]
		r := g.ref(id)
		op := Op{Kind: "set", Mode: oneOf(t, []string{"json", "json", "flags", "bodystdin"}, "mode"), Target: &r, Agent: agent}
		op.Title = sp(w.UniqueTitle("retitled"))
		op.Body = sp(bodyOf())
		if len(epics) > 0 && pct(t, 50, "epic") {
			e := g.ref(oneOf(t, epics, "epicref"))
			op.Epic = &e
		}
		// a state the table allows from the current one
		var allowed []string
		for _, s := range AllStates {
			if transitionTable[it.State][s] {
				allowed = append(allowed, s)
			}
		}
		st := oneOf(t, allowed, "state")
		op.State = &st
		if needsClaim(st) || pct(t, 40, "claim") {
			if !forbidsClaim(st) {
				op.Claim = sp(agent)
			}
		}
		return op
	case "set_result":
		id := oneOf(t, tasks, "target")
		r := g.ref(id)
		op := Op{Kind: "set", Mode: "json", Target: &r, Agent: agent}
		op.Files = []FileSpec{{Path: "out/crash.txt", Content: "result content"}}
		op.ResultPath, op.ResultSummary = sp("out/crash.txt"), sp("crash result")
		if pct(t, 70, "title") {
			op.Title = sp(w.UniqueTitle("withresult"))
		}
		if pct(t, 50, "body") {
			op.Body = sp(bodyOf())
		}
		if pct(t, 60, "state") {
			// evidence together with the state change it justifies
			var allowed []string
			for _, s := range AllStates {
				if transitionTable[pre.Items[id].State][s] {
					allowed = append(allowed, s)
				}
			}
			if len(allowed) > 0 {
				st := oneOf(t, allowed, "state")
				op.State = &st
				if needsClaim(st) {
					op.Claim = sp(agent)
				}
			}
		}
		return op
	case "sequence3":
		perm := rapid.Permutation(tasks).Draw(t, "perm")
		n := between(t, 3, min(4, len(perm)), "n")
		op := Op{Kind: "sequence"}
		for _, id := range perm[:n] {
			op.Refs = append(op.Refs, g.ref(id))
		}
		return op
	case "prune_yes":
		return Op{Kind: "prune_yes", Agent: agent}
	case "plan":
		return Op{Kind: "plan", Plan: genPlanDoc(t, w, 2, 5)}
	case "compact":
		return Op{Kind: "compact"}
	default: // new_task_state
		op := Op{Kind: "new_task", Mode: oneOf(t, []string{"json", "json", "flags", "bodystdin"}, "mode"), Agent: agent}
		op.Title = sp(w.UniqueTitle("created"))
		op.Body = sp(bodyOf())
		if len(epics) > 0 && pct(t, 40, "epic") {
			e := g.ref(oneOf(t, epics, "epicref"))
			op.Epic = &e
		}
		st := oneOf(t, []string{"doing", "doing", "done", "blocked", "canceled"}, "state")
		op.State = &st
		if st == "doing" || (st == "blocked" && pct(t, 50, "claim")) {
			op.Claim = sp(agent)
		}
		if op.Mode == "json" && pct(t, 30, "result") {
			op.Files = []FileSpec{{Path: "out/crash.txt", Content: "result content"}}
			op.ResultPath, op.ResultSummary = sp("out/crash.txt"), sp("crash result")
		}
		return op
	}
}

// buildPreState runs a few ordinary commands to get a store with some history. It
// returns false when the history had to be abandoned.
func buildPreState(t *rapid.T, w *World, prof Profile, steps int) (*Snapshot, bool) {
	pre, err := TakeSnapshot(w.Root)
	if err != nil {
		return nil, false
	}
	for i := 0; i < steps; i++ {
		op := genOp(t, w, pre, prof)
		op.N = i
		out := w.Step(pre, op)
		if out.Post == nil || out.Abort != "" || len(out.Viol) > 0 {
			return pre, out.Post != nil && len(out.Viol) == 0
		}
		pre = out.Post
	}
	return pre, true
}

var setupProfile = Profile{Name: "setup", Weights: map[string]int{"new_task": 34, "new_epic": 8, "set": 26, "claim": 6, "sequence": 12, "plan": 4, "prune_yes": 2, "compact": 2},
	BadRef: 0, Spoil: 0, Results: 8, MinSteps: 3, MaxSteps: 10}

// positionOf describes where in the undisturbed trace a kill landed, for coverage.
func describeKill(calls []TraceCall, completed int) string {
	if completed >= len(calls) {
		return "after the last call"
	}
	return fmt.Sprintf("before call %d/%d %s", completed+1, len(calls), calls[completed].Name)
}

func firstLastMutating(calls []TraceCall) (first, last int) {
	first, last = -1, -1
	for i, c := range calls {
		if mutatingCall[c.Name] {
			if first < 0 {
				first = i
			}
			last = i
		}
	}
	return
}

// cleanLog returns the log a reader is entitled to see after a crash: all complete
// lines, plus the unterminated final fragment only when it is itself a valid JSON value
// (then terminated by a newline).
func cleanLog(b []byte) []byte {
	lines, rest := LogLines(b)
	var out strings.Builder
	for _, l := range lines {
		out.WriteString(l)
		out.WriteByte('\n')
	}
	if strings.TrimSpace(rest) != "" && json.Valid([]byte(strings.TrimSpace(rest))) {
		var probe map[string]any
		if json.Unmarshal([]byte(strings.TrimSpace(rest)), &probe) == nil {
			out.WriteString(rest)
			out.WriteByte('\n')
		}
	}
	return []byte(out.String())
}

func removeTmpFiles(root string) {
	m, _ := filepath.Glob(filepath.Join(root, ".ergo", "*.tmp"))
	for _, p := range m {
		os.Remove(p)
	}
}

package props

import (
	"fmt"
	"os"
	"strings"
	"testing"
	"time"

	"pgregory.net/rapid"
)

// Error injection: the same enumeration as the kill engine, but the chosen system call
// fails (ENOSPC for writes, EIO otherwise) instead of the process dying. The oracle is
// deliberately one-sided so that it holds for any correct implementation:
//   - a command that exits 0 has told its caller the mutation happened: the observable
//     state must equal the state after an undisturbed run (acknowledged writes are never
//     lost; for claim: the agent that was told it won really holds the task);
//   - a command that exits non-zero must leave either the state before or the state after
//     (an error after the commit point, e.g. the directory fsync, may report a failure
//     for a change that is in effect) - never a third state.
var errnoFor = map[string]string{"write": "ENOSPC", "pwrite64": "ENOSPC", "writev": "ENOSPC", "fsync": "EIO", "fdatasync": "EIO",
	"rename": "EIO", "renameat": "EIO", "renameat2": "EIO", "ftruncate": "EIO", "read": "EIO", "pread64": "EIO", "unlink": "EIO", "unlinkat": "EIO", "openat": "EACCES", "flock": "ENOLCK"}

func errorPoints(calls []TraceCall) []Inject {
	count := map[string]int{}
	var out []Inject
	for _, c := range calls {
		e, ok := errnoFor[c.Name]
		count[c.Name]++
		if !ok {
			continue
		}
		out = append(out, Inject{Syscall: c.Name, When: count[c.Name], Kind: "error", Errno: e})
	}
	return out
}

func runErrorInjection(prop string, w *World, pre *Snapshot, target Op, only *Inject) crashOutcome {
	var oc crashOutcome
	oc.kind = target.Kind + "/" + fieldSig(target)
	w.writeFiles(target.Files) // the model looks at the files a result names
	if w.Predict(pre, target).Decision == MustReject {
		oc.skipped = "model rejects the command"
		return oc
	}
	full := w.At(CloneStore(w.Root, "full"))
	defer RemoveAll(full.Root)
	full.writeFiles(target.Files)
	base := StraceRun(full.Build(target), full.Root, nil)
	if !base.Res.OK() {
		oc.skipped = "command fails without any fault"
		return oc
	}
	postF, err := TakeSnapshot(full.Root)
	if err != nil {
		return oc
	}
	cPre, cPost := CanonSnap(pre, pre, w.Root), CanonSnap(postF, pre, full.Root)
	points := errorPoints(base.Calls)
	if only != nil {
		points = []Inject{*only}
	}
	for _, c := range base.Calls {
		oc.trace = append(oc.trace, c.String())
	}
	for _, inj := range points {
		inj := inj
		k := w.At(CloneStore(w.Root, "err"))
		k.writeFiles(target.Files)
		out := StraceRun(k.Build(target), k.Root, &inj)
		oc.points++
		snapK, err := TakeSnapshot(k.Root)
		if err != nil {
			oc.viol = append(oc.viol, Violation{prop, fmt.Sprintf("after %s the store cannot be read: %v", inj, err)})
			oc.failing = &inj
			RemoveAll(k.Root)
			return oc
		}
		cK := CanonSnap(snapK, pre, k.Root)
		dPre, dPost := canonDiff(cK, cPre), canonDiff(cK, cPost)
		cmdline := strings.Join(k.Build(target).Args, " ")
		switch {
		case out.Res.OK() && len(dPost) > 0:
			oc.viol = append(oc.viol, Violation{prop, fmt.Sprintf("`%s` exited 0 under %s, but its effect is not (fully) there: %s", cmdline, inj, clip(strings.Join(dPost, "; "), 500))})
			oc.failing = &inj
		case !out.Res.OK() && len(dPre) > 0 && len(dPost) > 0:
			oc.viol = append(oc.viol, Violation{prop, fmt.Sprintf("`%s` failed under %s and left a state that is neither before nor after: %s", cmdline, inj, clip(strings.Join(dPre, "; "), 500))})
			oc.failing = &inj
		}
		if !out.Res.OK() {
			oc.killed++ // here: number of runs in which the fault made the command fail
			if mutatingCall[inj.Syscall] {
				oc.nontrivial = append(oc.nontrivial, fmt.Sprintf("%s@%s#%d", oc.kind, inj.Syscall, inj.When))
			}
		}
		RemoveAll(k.Root)
		if oc.failing != nil {
			return oc
		}
	}
	return oc
}

// faultSetupProfile is the profile of the setup histories of the error-injection tests.
var faultSetupProfile = &claimSetup

func runFaultErrTest(t *testing.T, prop, test string, gen func(rt *rapid.T, w *World, pre *Snapshot) Op) {
	if err := StraceAvailable(); err != nil {
		t.Skipf("INFRA: %v", err)
	}
	if os.Getenv("VERIF_MINIMIZE_IN") != "" {
		return
	}
	if p := os.Getenv("VERIF_REPLAY_IN"); p != "" {
		replayCrash(t, p, func(w *World, pre *Snapshot, cc CrashCase) crashOutcome {
			return runErrorInjection(prop, w, pre, cc.Target, cc.Inject)
		})
		return
	}
	stats := NewStats(prop, "FAULT/error-injection", "for a generated store and a generated mutating command, the command is re-run on a fresh copy once per system call it issues on the store's files with that call failing (ENOSPC for writes, EIO / EACCES otherwise; strace error injection); exit 0 requires the full effect to be observable, a non-zero exit requires the state before or after, never a third state; non-trivial = the injected failure hit a mutating call and made the command fail; distinct = (command shape, failing call)")
	defer stats.Flush()
	deadline := budgetDeadline()
	replayPath := ReplayOutPath(prop)
	rapid.Check(t, func(rt *rapid.T) {
		if !deadline.IsZero() && time.Now().After(deadline) {
			stats.Shortfall = "wall-clock guard reached before all requested instances ran"
			return
		}
		w := NewWorld(prop)
		defer w.Close()
		var setup []Op
		pre, _ := TakeSnapshot(w.Root)
		nsetup := between(rt, 2, 8, "setup.n")
		for i := 0; i < nsetup; i++ {
			op := genOp(rt, w, pre, *faultSetupProfile)
			if i == nsetup-1 && pct(rt, 20, "setup.big") {
				// a log that no reader gets in one read(2)
				op = Op{Kind: "new_task", Mode: "bodystdin", Title: sp(w.UniqueTitle("big")), Body: sp(bigBody(between(rt, 66000, 250000, "setup.bigsize")))}
				stats.Label("log_over_64KiB_behind_smaller_events")
			}
			op.N = i
			out := w.Step(pre, op)
			if out.Post == nil || out.Abort != "" || len(out.Viol) > 0 {
				stats.Abort("setup history hit a violation of another property")
				return
			}
			setup = append(setup, op)
			pre = out.Post
		}
		target := gen(rt, w, pre)
		target.N = len(setup)
		oc := runErrorInjection(prop, w, pre, target, nil)
		if len(oc.viol) > 0 {
			WriteReplay(replayPath, CrashCase{Property: prop, Engine: "FAULT", Test: test, Setup: setup, Target: target, Inject: oc.failing, Violations: oc.viol, Trace: oc.trace})
			rt.Fatalf("%s violated: %v", prop, oc.viol)
		}
		stats.Eval()
		if oc.skipped != "" {
			stats.Label("instance.skipped")
			return
		}
		stats.Label("cmd." + target.Kind)
		stats.EvalN(oc.points) // every faulted re-run is an execution
		stats.LabelN("fault_points", oc.points)
		stats.LabelN("faults_that_made_the_command_fail", oc.killed)
		for _, n := range oc.nontrivial {
			stats.NonTrivial(n)
		}
		stats.Sample(oc.points, map[string]any{"setup": len(setup), "command": strings.Join(w.Build(target).Args, " "), "stdin": clip(w.Build(target).Stdin, 200), "fault_points_tried": oc.points})
	})
}

func TestC01Faults(t *testing.T) {
	runFaultErrTest(t, "C01", "TestC01Faults", func(rt *rapid.T, w *World, pre *Snapshot) Op {
		op := Op{Kind: "claim", Agent: oneOf(rt, agents, "agent")}
		g := refGen{rt, w, pre}
		if pct(rt, 25, "epic") {
			r := g.pick("epic", 0, "epicref")
			if r.Op >= 0 {
				op.EpicFilter = &r
			}
		}
		return op
	})
}

func TestC02Faults(t *testing.T) {
	runFaultErrTest(t, "C02", "TestC02Faults", genMultiEventOp)
}

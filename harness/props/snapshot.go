package props

import (
	"encoding/json"
	"fmt"
	"os"
	"path/filepath"
	"sort"
	"strings"
)

// ResultRec is one attached result as shown by `show --json`.
type ResultRec struct {
	Summary   string `json:"summary"`
	Path      string `json:"path"`
	FileURL   string `json:"file_url"`
	Sha       string `json:"sha256_at_attach"`
	Mtime     string `json:"mtime_at_attach,omitempty"`
	Git       string `json:"git_commit_at_attach,omitempty"`
	CreatedAt string `json:"created_at"`
}

// Item is everything the read commands tell about one task or epic.
type Item struct {
	ID        string      `json:"id"`
	UUID      string      `json:"uuid"`
	IsEpic    bool        `json:"is_epic"`
	EpicID    string      `json:"epic_id"`
	State     string      `json:"state"`
	ClaimedBy string      `json:"claimed_by"`
	ClaimedAt string      `json:"claimed_at"`
	CreatedAt string      `json:"created_at"`
	UpdatedAt string      `json:"updated_at"`
	Title     string      `json:"title"`
	Body      string      `json:"body"`
	Deps      []string    `json:"deps"`
	RDeps     []string    `json:"rdeps"`
	Results   []ResultRec `json:"results,omitempty"`
	// from list --json
	Ready      bool `json:"ready"`
	Blocked    bool `json:"blocked"`
	HasResults bool `json:"has_results"`
}

func (it *Item) Clone() *Item {
	c := *it
	c.Deps = append([]string(nil), it.Deps...)
	c.RDeps = append([]string(nil), it.RDeps...)
	c.Results = append([]ResultRec(nil), it.Results...)
	return &c
}

// Snapshot is the observable state of a store.
type Snapshot struct {
	Items     map[string]*Item `json:"items"`
	TaskOrder []string         `json:"task_order"` // order of list --json --all
	EpicOrder []string         `json:"epic_order"` // order of list --json --epics
	// Inconsistent lists disagreements between list and show about the same item.
	Inconsistent []string `json:"inconsistent,omitempty"`
	Log          []byte   `json:"-"`
}

func (s *Snapshot) Clone() *Snapshot {
	c := &Snapshot{Items: map[string]*Item{}}
	for k, v := range s.Items {
		c.Items[k] = v.Clone()
	}
	c.TaskOrder = append([]string(nil), s.TaskOrder...)
	c.EpicOrder = append([]string(nil), s.EpicOrder...)
	c.Log = append([]byte(nil), s.Log...)
	return c
}

func (s *Snapshot) SortedIDs() []string {
	ids := make([]string, 0, len(s.Items))
	for id := range s.Items {
		ids = append(ids, id)
	}
	sort.Strings(ids)
	return ids
}

func (s *Snapshot) Tasks() []*Item {
	var out []*Item
	for _, id := range s.SortedIDs() {
		if !s.Items[id].IsEpic {
			out = append(out, s.Items[id])
		}
	}
	return out
}

func (s *Snapshot) Epics() []*Item {
	var out []*Item
	for _, id := range s.SortedIDs() {
		if s.Items[id].IsEpic {
			out = append(out, s.Items[id])
		}
	}
	return out
}

type listItemJSON struct {
	Kind       string `json:"kind"`
	ID         string `json:"id"`
	EpicID     string `json:"epic_id"`
	State      string `json:"state"`
	ClaimedBy  string `json:"claimed_by"`
	Title      string `json:"title"`
	Ready      bool   `json:"ready"`
	Blocked    bool   `json:"blocked"`
	HasResults bool   `json:"has_results"`
}

type showJSON struct {
	ID        string      `json:"id"`
	UUID      string      `json:"uuid"`
	EpicID    string      `json:"epic_id"`
	State     string      `json:"state"`
	ClaimedBy string      `json:"claimed_by"`
	ClaimedAt string      `json:"claimed_at"`
	CreatedAt string      `json:"created_at"`
	UpdatedAt string      `json:"updated_at"`
	Deps      []string    `json:"deps"`
	RDeps     []string    `json:"rdeps"`
	Title     string      `json:"title"`
	Body      string      `json:"body"`
	Results   []ResultRec `json:"results"`
}

type showEpicJSON struct {
	Epic     *showJSON  `json:"epic"`
	Children []showJSON `json:"children"`
}

// ReadError is returned by TakeSnapshot when a read command fails or prints something
// that is not a single JSON value.
type ReadError struct {
	Cmd Cmd
	Res Res
	Why string
}

func (e *ReadError) Error() string {
	return fmt.Sprintf("read %v failed: %s (exit %d) stdout=%q stderr=%q", e.Cmd.Args, e.Why, e.Res.Code, clip(e.Res.Stdout, 300), clip(e.Res.Stderr, 300))
}

func clip(s string, n int) string {
	if len(s) <= n {
		return s
	}
	return s[:n] + "…"
}

func readJSON(root string, v any, args ...string) error {
	c := Cmd{Args: append([]string{"--json"}, args...), Dir: root}
	r := Run(c)
	if !r.OK() {
		return &ReadError{c, r, "non-zero exit"}
	}
	if err := StrictJSON(r.Stdout, v); err != nil {
		return &ReadError{c, r, "stdout is not exactly one JSON value: " + err.Error()}
	}
	return nil
}

// ListAll returns `list --json --all`.
func ListAll(root string) ([]listItemJSON, error) {
	var v []listItemJSON
	err := readJSON(root, &v, "list", "--all")
	return v, err
}

func ListEpics(root string) ([]listItemJSON, error) {
	var v []listItemJSON
	err := readJSON(root, &v, "list", "--epics")
	return v, err
}

func fromShow(sj *showJSON, isEpic bool) *Item {
	return &Item{
		ID: sj.ID, UUID: sj.UUID, IsEpic: isEpic, EpicID: sj.EpicID, State: sj.State,
		ClaimedBy: sj.ClaimedBy, ClaimedAt: sj.ClaimedAt, CreatedAt: sj.CreatedAt, UpdatedAt: sj.UpdatedAt,
		Title: sj.Title, Body: sj.Body, Deps: nz(sj.Deps), RDeps: nz(sj.RDeps), Results: sj.Results,
	}
}

func nz(s []string) []string {
	if s == nil {
		return []string{}
	}
	return s
}

// ShowItem runs `show --json <id>`; for epics the children come back as well.
func ShowItem(root, id string) (item *Item, children []*Item, err error) {
	c := Cmd{Args: []string{"--json", "show", id}, Dir: root}
	r := Run(c)
	if !r.OK() {
		return nil, nil, &ReadError{c, r, "non-zero exit"}
	}
	var raw map[string]json.RawMessage
	if err := StrictJSON(r.Stdout, &raw); err != nil {
		return nil, nil, &ReadError{c, r, "stdout is not exactly one JSON object: " + err.Error()}
	}
	if _, wrapped := raw["epic"]; wrapped {
		var se showEpicJSON
		if err := StrictJSON(r.Stdout, &se); err != nil || se.Epic == nil {
			return nil, nil, &ReadError{c, r, "bad epic object"}
		}
		item = fromShow(se.Epic, true)
		for i := range se.Children {
			children = append(children, fromShow(&se.Children[i], false))
		}
		return item, children, nil
	}
	var sj showJSON
	if err := StrictJSON(r.Stdout, &sj); err != nil {
		return nil, nil, &ReadError{c, r, err.Error()}
	}
	return fromShow(&sj, false), nil, nil
}

// TakeSnapshot reads the whole observable state through list and show.
func TakeSnapshot(root string) (*Snapshot, error) {
	s := &Snapshot{Items: map[string]*Item{}}
	s.Log = ReadLog(root)
	tasks, err := ListAll(root)
	if err != nil {
		return nil, err
	}
	epics, err := ListEpics(root)
	if err != nil {
		return nil, err
	}
	listed := map[string]listItemJSON{}
	for _, e := range epics {
		s.EpicOrder = append(s.EpicOrder, e.ID)
		if _, dup := listed[e.ID]; dup {
			s.Inconsistent = append(s.Inconsistent, "id listed twice: "+e.ID)
		}
		listed[e.ID] = e
		if e.Kind != "epic" {
			s.Inconsistent = append(s.Inconsistent, fmt.Sprintf("list --epics item %s has kind %q", e.ID, e.Kind))
		}
	}
	for _, t := range tasks {
		s.TaskOrder = append(s.TaskOrder, t.ID)
		if _, dup := listed[t.ID]; dup {
			s.Inconsistent = append(s.Inconsistent, "id listed twice: "+t.ID)
		}
		listed[t.ID] = t
		if t.Kind != "task" {
			s.Inconsistent = append(s.Inconsistent, fmt.Sprintf("list --all item %s has kind %q", t.ID, t.Kind))
		}
	}
	for _, e := range epics {
		it, children, err := ShowItem(root, e.ID)
		if err != nil {
			return nil, err
		}
		it.IsEpic = true
		s.Items[e.ID] = it
		for _, ch := range children {
			if _, known := listed[ch.ID]; !known {
				s.Inconsistent = append(s.Inconsistent, fmt.Sprintf("show %s lists child %s that no list shows", e.ID, ch.ID))
				continue
			}
			if ch.EpicID != e.ID {
				s.Inconsistent = append(s.Inconsistent, fmt.Sprintf("show %s lists child %s whose epic_id is %q", e.ID, ch.ID, ch.EpicID))
			}
			s.Items[ch.ID] = ch
		}
	}
	for _, t := range tasks {
		if _, have := s.Items[t.ID]; have {
			continue
		}
		it, _, err := ShowItem(root, t.ID)
		if err != nil {
			return nil, err
		}
		s.Items[t.ID] = it
	}
	for id, li := range listed {
		it := s.Items[id]
		if it == nil {
			continue
		}
		it.Ready, it.Blocked, it.HasResults = li.Ready, li.Blocked, li.HasResults
		if it.ID != id {
			s.Inconsistent = append(s.Inconsistent, fmt.Sprintf("show %s returned id %s", id, it.ID))
		}
		if li.State != it.State || li.ClaimedBy != it.ClaimedBy || li.Title != it.Title || li.EpicID != it.EpicID {
			s.Inconsistent = append(s.Inconsistent, fmt.Sprintf("list and show disagree on %s: list{state=%s claim=%q epic=%q title=%q} show{state=%s claim=%q epic=%q title=%q}",
				id, li.State, li.ClaimedBy, li.EpicID, li.Title, it.State, it.ClaimedBy, it.EpicID, it.Title))
		}
		if li.HasResults != (len(it.Results) > 0) {
			s.Inconsistent = append(s.Inconsistent, fmt.Sprintf("has_results of %s is %v but show has %d results", id, li.HasResults, len(it.Results)))
		}
	}
	sort.Strings(s.Inconsistent)
	return s, nil
}

// DiffOpts controls snapshot comparison.
type DiffOpts struct {
	IgnoreUpdatedAt bool
	IgnoreClaimedAt bool
	IgnoreCreatedAt bool
	IgnoreUUID      bool
	IgnoreOrder     bool   // do not compare list orders
	RootA, RootB    string // when both set, file_url is compared relative to the roots
	OnlyIDs         map[string]bool
	SkipIDs         map[string]bool
	IgnoreResultTS  bool
}

func relURL(u, root string) string {
	if root == "" {
		return u
	}
	return strings.Replace(u, "file://"+root, "file://<root>", 1)
}

// DiffSnap lists the differences between two snapshots (empty = observably equal).
func DiffSnap(a, b *Snapshot, o DiffOpts) []string {
	var out []string
	ids := map[string]bool{}
	for id := range a.Items {
		ids[id] = true
	}
	for id := range b.Items {
		ids[id] = true
	}
	keys := make([]string, 0, len(ids))
	for id := range ids {
		keys = append(keys, id)
	}
	sort.Strings(keys)
	for _, id := range keys {
		if o.OnlyIDs != nil && !o.OnlyIDs[id] {
			continue
		}
		if o.SkipIDs != nil && o.SkipIDs[id] {
			continue
		}
		x, y := a.Items[id], b.Items[id]
		if x == nil {
			out = append(out, fmt.Sprintf("%s: absent before/left, present after/right (%s)", id, y.Title))
			continue
		}
		if y == nil {
			out = append(out, fmt.Sprintf("%s: present before/left (%s), absent after/right", id, x.Title))
			continue
		}
		out = append(out, diffItem(x, y, o)...)
	}
	if !o.IgnoreOrder && o.OnlyIDs == nil && o.SkipIDs == nil {
		if strings.Join(a.TaskOrder, ",") != strings.Join(b.TaskOrder, ",") {
			out = append(out, fmt.Sprintf("task list order differs: %v vs %v", a.TaskOrder, b.TaskOrder))
		}
		if strings.Join(a.EpicOrder, ",") != strings.Join(b.EpicOrder, ",") {
			out = append(out, fmt.Sprintf("epic list order differs: %v vs %v", a.EpicOrder, b.EpicOrder))
		}
	}
	return out
}

func diffItem(x, y *Item, o DiffOpts) []string {
	var out []string
	f := func(name, p, q string) {
		if p != q {
			out = append(out, fmt.Sprintf("%s: %s %q != %q", x.ID, name, clip(p, 120), clip(q, 120)))
		}
	}
	if x.IsEpic != y.IsEpic {
		out = append(out, fmt.Sprintf("%s: kind differs", x.ID))
	}
	if !o.IgnoreUUID {
		f("uuid", x.UUID, y.UUID)
	}
	f("epic_id", x.EpicID, y.EpicID)
	f("state", x.State, y.State)
	f("claimed_by", x.ClaimedBy, y.ClaimedBy)
	if !o.IgnoreClaimedAt {
		f("claimed_at", x.ClaimedAt, y.ClaimedAt)
	}
	if !o.IgnoreCreatedAt {
		f("created_at", x.CreatedAt, y.CreatedAt)
	}
	if !o.IgnoreUpdatedAt {
		f("updated_at", x.UpdatedAt, y.UpdatedAt)
	}
	f("title", x.Title, y.Title)
	f("body", x.Body, y.Body)
	f("deps", strings.Join(x.Deps, ","), strings.Join(y.Deps, ","))
	f("rdeps", strings.Join(x.RDeps, ","), strings.Join(y.RDeps, ","))
	if x.Ready != y.Ready {
		out = append(out, fmt.Sprintf("%s: ready %v != %v", x.ID, x.Ready, y.Ready))
	}
	if x.Blocked != y.Blocked {
		out = append(out, fmt.Sprintf("%s: blocked %v != %v", x.ID, x.Blocked, y.Blocked))
	}
	if len(x.Results) != len(y.Results) {
		out = append(out, fmt.Sprintf("%s: %d results != %d results", x.ID, len(x.Results), len(y.Results)))
	} else {
		for i := range x.Results {
			p, q := x.Results[i], y.Results[i]
			p.FileURL, q.FileURL = relURL(p.FileURL, o.RootA), relURL(q.FileURL, o.RootB)
			if o.IgnoreResultTS {
				p.CreatedAt, q.CreatedAt = "", ""
				p.Mtime, q.Mtime = "", ""
			}
			if p != q {
				out = append(out, fmt.Sprintf("%s: result[%d] %+v != %+v", x.ID, i, p, q))
			}
		}
	}
	return out
}

// RenameIDs returns a copy of s with ids replaced according to m (ids not in m stay).
func (s *Snapshot) RenameIDs(m map[string]string) *Snapshot {
	r := func(id string) string {
		if n, ok := m[id]; ok {
			return n
		}
		return id
	}
	c := &Snapshot{Items: map[string]*Item{}}
	for id, it := range s.Items {
		n := it.Clone()
		n.ID = r(id)
		n.EpicID = r(n.EpicID)
		for i := range n.Deps {
			n.Deps[i] = r(n.Deps[i])
		}
		for i := range n.RDeps {
			n.RDeps[i] = r(n.RDeps[i])
		}
		sort.Strings(n.Deps)
		sort.Strings(n.RDeps)
		c.Items[n.ID] = n
	}
	for _, id := range s.TaskOrder {
		c.TaskOrder = append(c.TaskOrder, r(id))
	}
	for _, id := range s.EpicOrder {
		c.EpicOrder = append(c.EpicOrder, r(id))
	}
	return c
}

// DirListing hashes every file under .ergo (name -> content), for purity checks.
func DirListing(root string) map[string]string {
	out := map[string]string{}
	base := filepath.Join(root, ".ergo")
	_ = filepath.Walk(base, func(p string, info os.FileInfo, err error) error {
		if err != nil || info.IsDir() {
			return nil
		}
		rel, _ := filepath.Rel(base, p)
		b, _ := os.ReadFile(p)
		out[rel] = string(b)
		return nil
	})
	return out
}

// LogLines splits a log into complete lines plus an unterminated remainder.
func LogLines(b []byte) (lines []string, rest string) {
	s := string(b)
	for {
		i := strings.IndexByte(s, '\n')
		if i < 0 {
			break
		}
		lines = append(lines, s[:i])
		s = s[i+1:]
	}
	return lines, s
}

// LogEvent is one parsed log line.
type LogEvent struct {
	Type string                     `json:"type"`
	TS   string                     `json:"ts"`
	Data map[string]json.RawMessage `json:"data"`
}

// ParseLog parses the complete lines of a log (blank lines skipped).
func ParseLog(b []byte) ([]LogEvent, error) {
	lines, _ := LogLines(b)
	var evs []LogEvent
	for i, l := range lines {
		if strings.TrimSpace(l) == "" {
			continue
		}
		var ev LogEvent
		if err := json.Unmarshal([]byte(l), &ev); err != nil {
			return evs, fmt.Errorf("line %d: %v", i+1, err)
		}
		evs = append(evs, ev)
	}
	return evs, nil
}

func (e LogEvent) Str(key string) string {
	var s string
	_ = json.Unmarshal(e.Data[key], &s)
	return s
}

package props

import (
	"encoding/base64"
	"encoding/json"
	"fmt"
	"os"
	"path/filepath"
	"strings"
	"testing"
	"time"

	"pgregory.net/rapid"
)

// ---- C09 part 2: hand-merged logs never bring a pruned id back ----

// subjectOf reports whether a log line is about id x: x is the item created / updated /
// tombstoned / given a result, or an endpoint of a link. (An `epic` event that files
// ANOTHER task under x is about that task and stays where it is.)
func subjectOf(s *Synth, ev LogEvent, x string) bool {
	switch ev.Type {
	case "link", "unlink":
		return s.Role(ev, "from") == x || s.Role(ev, "to") == x
	default:
		return s.Role(ev, "id") == x
	}
}

// MergeCase is the replay format.
type MergeCase struct {
	Property   string      `json:"property"`
	Engine     string      `json:"engine"`
	Test       string      `json:"test"`
	WithB64    string      `json:"log_with_pruned_events_b64"`
	WithoutB64 string      `json:"log_without_them_b64"`
	Pruned     string      `json:"pruned_id"`
	Violations []Violation `json:"violations,omitempty"`
}

func compareLogs(with, without []byte, pruned string) []string {
	var viol []string
	a := writeLogStore("c09a", without, false)
	defer RemoveAll(a)
	sa, err := TakeSnapshot(a)
	if err != nil {
		return []string{"log without the pruned id's events is unreadable: " + err.Error()}
	}
	_ = os.WriteFile(LogPath(a), with, 0o644)
	sb, err := TakeSnapshot(a)
	if err != nil {
		return []string{"log with the pruned id's events shuffled in is unreadable: " + err.Error()}
	}
	if sb.Items[pruned] != nil {
		viol = append(viol, fmt.Sprintf("pruned id %s is back (%s %q)", pruned, sb.Items[pruned].State, sb.Items[pruned].Title))
	}
	for _, d := range DiffSnap(sa, sb, DiffOpts{}) {
		viol = append(viol, "the shuffled events of the pruned id change what is shown: "+d)
	}
	for _, args := range [][]string{{"--json", "show", pruned}, {"--json", "--agent", "z", "claim", pruned}, {"--json", "sequence", pruned, pruned}} {
		if r := Run(Cmd{Args: args, Dir: a}); r.OK() {
			viol = append(viol, fmt.Sprintf("`%s` succeeds on the pruned id", strings.Join(args, " ")))
		}
	}
	return viol
}

func TestC09Logs(t *testing.T) {
	if os.Getenv("VERIF_MINIMIZE_IN") != "" {
		return
	}
	s, err := GetSynth()
	if err != nil {
		t.Skipf("INFRA: cannot capture event templates: %v", err)
	}
	if p := os.Getenv("VERIF_REPLAY_IN"); p != "" {
		b, _ := os.ReadFile(p)
		var mc MergeCase
		if err := json.Unmarshal(b, &mc); err != nil {
			t.Fatal(err)
		}
		w, _ := base64.StdEncoding.DecodeString(mc.WithB64)
		wo, _ := base64.StdEncoding.DecodeString(mc.WithoutB64)
		if v := compareLogs(w, wo, mc.Pruned); len(v) > 0 {
			t.Fatalf("REPLAY-VIOLATION C09: %v", v)
		}
		return
	}
	stats := NewStats("C09", "LOGS/hand-merged", "a real command history with at least one prune --yes (not compacted); for a drawn pruned id every log line about that id (create, updates, results, links at either end, tombstone) is removed and re-inserted at drawn positions in a drawn order among the other lines - as a hand merge of two branches would -; oracle (metamorphic): the store reads exactly like the log with those lines deleted, the id is not listed and cannot be shown, claimed or sequenced; non-trivial = the pruned id has >= 3 lines and at least one of them lands after its tombstone or the tombstone lands first; distinct = distinct resulting logs")
	defer stats.Flush()
	deadline := budgetDeadline()
	replayPath := ReplayOutPath("C09")
	prof := Profile{Name: "prune-history", Weights: map[string]int{"new_task": 30, "new_epic": 8, "set": 34, "sequence": 12, "claim": 5, "prune_yes": 14, "plan": 3}, Results: 10, StatePool: []string{"done", "done", "canceled", "doing", "todo", "blocked"}, StatePct: 60}
	rapid.Check(t, func(rt *rapid.T) {
		if !deadline.IsZero() && time.Now().After(deadline) {
			stats.Shortfall = "wall-clock guard reached"
			return
		}
		w := NewWorld("c09logs")
		defer w.Close()
		pre, _ := TakeSnapshot(w.Root)
		n := between(rt, 8, 22, "steps")
		for i := 0; i < n; i++ {
			op := genOp(rt, w, pre, prof)
			op.N = i
			out := w.Step(pre, op)
			if out.Post == nil || out.Abort != "" || len(out.Viol) > 0 {
				break
			}
			pre = out.Post
		}
		stats.Eval()
		var pruned []string
		for id := range w.Pruned {
			pruned = append(pruned, id)
		}
		if len(pruned) == 0 {
			stats.Label("history_without_prune")
			return
		}
		x := oneOf(rt, keys(map[string]bool(w.Pruned)), "pruned.id")
		lines, rest := LogLines(ReadLog(w.Root))
		if strings.TrimSpace(rest) != "" {
			lines = append(lines, rest)
		}
		var mine, others []string
		for _, l := range lines {
			var ev LogEvent
			if json.Unmarshal([]byte(l), &ev) == nil && subjectOf(s, ev, x) {
				mine = append(mine, l)
			} else {
				others = append(others, l)
			}
		}
		if len(mine) == 0 {
			stats.Label("pruned_id_compacted_away")
			return
		}
		merged := append([]string{}, others...)
		order := rapid.Permutation(mine).Draw(rt, "order")
		tombFirst := false
		for k, l := range order {
			at := uni(rt, len(merged)+1, "at")
			merged = append(merged[:at], append([]string{l}, merged[at:]...)...)
			if k == 0 && strings.Contains(l, `"tombstone"`) {
				tombFirst = true
			}
		}
		with := []byte(strings.Join(merged, "\n") + "\n")
		without := []byte(strings.Join(others, "\n") + "\n")
		if len(others) == 0 {
			without = nil
		}
		viol := compareLogs(with, without, x)
		if len(viol) > 0 {
			var vs []Violation
			for _, m := range viol {
				vs = append(vs, Violation{"C09", m})
			}
			WriteReplay(replayPath, MergeCase{Property: "C09", Engine: "LOGS", Test: "TestC09Logs", WithB64: base64.StdEncoding.EncodeToString(with), WithoutB64: base64.StdEncoding.EncodeToString(without), Pruned: x, Violations: vs})
			rt.Fatalf("C09 violated: %v", viol)
		}
		stats.Label("shuffled")
		if len(mine) >= 3 {
			stats.NonTrivial(string(with))
		}
		if tombFirst {
			stats.Label("tombstone_inserted_first")
		}
		stats.Sample(len(mine), map[string]any{"pruned_id": x, "lines_about_it": len(mine), "other_lines": len(others), "log_head": clip(string(with), 500)})
	})
}

// ---- C09 part 3: a pruned id is never issued again (needs the verif id hook) ----

// IDCase is the replay format.
type IDCase struct {
	Property   string      `json:"property"`
	Engine     string      `json:"engine"`
	Test       string      `json:"test"`
	Tasks      int         `json:"tasks"`
	Epics      int         `json:"epics"`
	Command    string      `json:"command"`
	Candidates []string    `json:"candidates"` // roles: pruned | live | fresh
	Compact    bool        `json:"compact_first"`
	Violations []Violation `json:"violations,omitempty"`
}

func hookWorks() bool {
	root := NewStore("hook")
	defer RemoveAll(root)
	f := filepath.Join(root, "ids.txt")
	_ = os.WriteFile(f, []byte("HOOKOK\n"), 0o644)
	r := Run(Cmd{Args: []string{"--json", "new", "task"}, Mode: StdinPipe, Stdin: `{"title":"hook probe"}`, Dir: root, Env: []string{"ERGO_VERIF_IDS=" + f}})
	var m struct{ ID string }
	return r.OK() && StrictJSON(r.Stdout, &m) == nil && m.ID == "HOOKOK"
}

func runIDCase(ic IDCase) (viol []string, note string) {
	root := NewStore("c09ids")
	defer RemoveAll(root)
	mk := func(kind, title, extra string) string {
		r := Run(Cmd{Args: []string{"--json", "new", kind}, Mode: StdinPipe, Stdin: fmt.Sprintf(`{"title":%q%s}`, title, extra), Dir: root})
		var m struct{ ID string }
		_ = StrictJSON(r.Stdout, &m)
		return m.ID
	}
	var prunedIDs, liveIDs []string
	for i := 0; i < ic.Epics; i++ {
		liveIDs = append(liveIDs, mk("epic", fmt.Sprintf("epic %d", i), ""))
	}
	for i := 0; i < ic.Tasks; i++ {
		if i%2 == 0 {
			prunedIDs = append(prunedIDs, mk("task", fmt.Sprintf("finished %d", i), `,"state":"done"`))
		} else {
			ep := ""
			if ic.Epics > 0 {
				ep = fmt.Sprintf(`,"epic":%q`, liveIDs[i%ic.Epics])
			}
			liveIDs = append(liveIDs, mk("task", fmt.Sprintf("open %d", i), ep))
		}
	}
	if r := Run(Cmd{Args: []string{"--json", "prune", "--yes"}, Dir: root}); !r.OK() {
		return nil, "prune failed"
	}
	before, err := TakeSnapshot(root)
	if err != nil {
		return nil, "snapshot failed"
	}
	// epics without children were pruned too
	var live []string
	for _, id := range liveIDs {
		if before.Items[id] != nil {
			live = append(live, id)
		} else {
			prunedIDs = append(prunedIDs, id)
		}
	}
	if ic.Compact {
		Run(Cmd{Args: []string{"--json", "compact"}, Dir: root})
	}
	var cands []string
	fresh := 0
	for i, role := range ic.Candidates {
		switch {
		case role == "pruned" && len(prunedIDs) > 0:
			cands = append(cands, prunedIDs[i%len(prunedIDs)])
		case role == "live" && len(live) > 0:
			cands = append(cands, live[i%len(live)])
		default:
			fresh++
			cands = append(cands, fmt.Sprintf("FRSH%02d", fresh))
		}
	}
	for i := 0; i < 8; i++ {
		fresh++
		cands = append(cands, fmt.Sprintf("FRSH%02d", fresh))
	}
	idsFile := filepath.Join(root, "forced-ids.txt")
	_ = os.WriteFile(idsFile, []byte(strings.Join(cands, "\n")+"\n"), 0o644)
	env := []string{"ERGO_VERIF_IDS=" + idsFile}
	var r Res
	var newIDs []string
	switch ic.Command {
	case "plan":
		r = Run(Cmd{Args: []string{"--json", "plan"}, Mode: StdinPipe, Stdin: `{"title":"planned","tasks":[{"title":"p1"},{"title":"p2","after":["p1"]},{"title":"p3","after":["p2"]}]}`, Dir: root, Env: env})
		var m struct {
			Epic  struct{ ID string }   `json:"epic"`
			Tasks []struct{ ID string } `json:"tasks"`
		}
		if r.OK() && StrictJSON(r.Stdout, &m) == nil {
			newIDs = append(newIDs, m.Epic.ID)
			for _, x := range m.Tasks {
				newIDs = append(newIDs, x.ID)
			}
		}
	case "new_epic":
		r = Run(Cmd{Args: []string{"--json", "new", "epic"}, Mode: StdinPipe, Stdin: `{"title":"fresh epic"}`, Dir: root, Env: env})
		var m struct{ ID string }
		if r.OK() && StrictJSON(r.Stdout, &m) == nil {
			newIDs = append(newIDs, m.ID)
		}
	default:
		r = Run(Cmd{Args: []string{"--json", "--agent", "a", "new", "task"}, Mode: StdinPipe, Stdin: `{"title":"fresh task","state":"doing"}`, Dir: root, Env: env})
		var m struct{ ID string }
		if r.OK() && StrictJSON(r.Stdout, &m) == nil {
			newIDs = append(newIDs, m.ID)
		}
	}
	if !r.OK() {
		// refusing to create is allowed only when every candidate was unusable; the list
		// always ends in fresh ones, so a failure here is a defect
		return []string{fmt.Sprintf("%s failed although usable ids were available: %s", ic.Command, clip(r.Stderr, 200))}, ""
	}
	prunedSet := map[string]bool{}
	for _, id := range prunedIDs {
		prunedSet[id] = true
	}
	seen := map[string]bool{}
	for _, id := range newIDs {
		if !ic.Compact && prunedSet[id] {
			viol = append(viol, fmt.Sprintf("%s issued the pruned id %s again", ic.Command, id))
		}
		if before.Items[id] != nil {
			viol = append(viol, fmt.Sprintf("%s issued the live id %s again", ic.Command, id))
		}
		if seen[id] {
			viol = append(viol, fmt.Sprintf("%s issued %s twice in one command", ic.Command, id))
		}
		seen[id] = true
		if _, _, err := ShowItem(root, id); err != nil {
			viol = append(viol, fmt.Sprintf("the item %s that %s reported cannot be shown: %v", id, ic.Command, err))
		}
	}
	after, err := TakeSnapshot(root)
	if err != nil {
		return append(viol, "store unreadable afterwards: "+err.Error()), ""
	}
	for id, it := range before.Items {
		if a := after.Items[id]; a == nil {
			viol = append(viol, fmt.Sprintf("live item %s vanished", id))
		} else if a.Title != it.Title || a.State != it.State {
			viol = append(viol, fmt.Sprintf("live item %s was overwritten (%q/%s -> %q/%s)", id, it.Title, it.State, a.Title, a.State))
		}
	}
	if len(after.Items) != len(before.Items)+len(newIDs) {
		viol = append(viol, fmt.Sprintf("%d items before, %d reported new, %d visible afterwards", len(before.Items), len(newIDs), len(after.Items)))
	}
	return viol, ""
}

func runIDTest(t *testing.T, prop, test string, commands ...string) {
	if len(commands) == 0 {
		commands = []string{"new_task", "new_epic", "plan", "plan"}
	}
	if os.Getenv("VERIF_MINIMIZE_IN") != "" {
		return
	}
	if p := os.Getenv("VERIF_REPLAY_IN"); p != "" {
		b, _ := os.ReadFile(p)
		var ic IDCase
		if err := json.Unmarshal(b, &ic); err != nil {
			t.Fatal(err)
		}
		if !hookWorks() {
			t.Skip("id hook not compiled in")
		}
		if v, _ := runIDCase(ic); len(v) > 0 {
			t.Fatalf("REPLAY-VIOLATION %s: %v", prop, v)
		}
		return
	}
	stats := NewStats(prop, "HOOK/forced-id-collisions", "a store with pruned (tombstoned, optionally compacted away) and live items; the id generator is made to propose a drawn sequence of candidates (pruned ids, live ids, fresh ids) through the verif build-tag hook ERGO_VERIF_IDS while `new task` (with state), `new epic` or `plan` (1 epic + 3 tasks + 2 edges) runs; oracle: no reported id equals a tombstoned or a live id or repeats, every reported item can be shown, no live item is lost or overwritten, and the item count grows by exactly the number of reported ids; non-trivial = at least one candidate is a pruned id that is still tombstoned; distinct = distinct (command, candidate roles, sizes)")
	defer stats.Flush()
	hook := hookWorks()
	if !hook {
		stats.Label("id_hook_unavailable_cases_are_vacuous")
	}
	replayPath := ReplayOutPath(prop)
	rapid.Check(t, func(rt *rapid.T) {
		ic := IDCase{Property: prop, Engine: "HOOK", Test: test}
		ic.Tasks = between(rt, 2, 7, "tasks")
		ic.Epics = between(rt, 0, 2, "epics")
		ic.Command = oneOf(rt, commands, "command")
		ic.Compact = pct(rt, 15, "compact")
		for n := between(rt, 1, 5, "cands"); n > 0; n-- {
			ic.Candidates = append(ic.Candidates, oneOf(rt, []string{"pruned", "pruned", "live", "fresh"}, "role"))
		}
		viol, note := runIDCase(ic)
		if len(viol) > 0 && hook {
			var vs []Violation
			for _, m := range viol {
				vs = append(vs, Violation{prop, m})
			}
			ic.Violations = vs
			WriteReplay(replayPath, ic)
			rt.Fatalf("%s violated: %v", prop, viol)
		}
		stats.Eval()
		if note != "" {
			stats.Label(note)
			return
		}
		stats.Label("cmd." + ic.Command)
		hasPruned := false
		for _, c := range ic.Candidates {
			if c == "pruned" {
				hasPruned = true
			}
		}
		if hook && hasPruned && !ic.Compact {
			b, _ := json.Marshal(ic)
			stats.NonTrivial(string(b))
		}
		stats.Sample(len(ic.Candidates), ic)
	})
}

func TestC09IDs(t *testing.T) { runIDTest(t, "C09", "TestC09IDs") }

// C16: "new ids (fresh, six upper-case characters)" - the same forced-collision experiment,
// judged as a statement about what --json reports.
func TestC16IDs(t *testing.T) { runIDTest(t, "C16", "TestC16IDs") }

// C11: "everything it reports (ids, order, edges) is what a subsequent read shows".
func TestC11IDs(t *testing.T) { runIDTest(t, "C11", "TestC11IDs", "plan") }

package props

import (
	"encoding/json"
	"fmt"
	"os"
	"path/filepath"
	"regexp"
	"strings"
	"testing"
	"time"

	"pgregory.net/rapid"
)

// SchedCase is a replayable concurrent execution.
type SchedCase struct {
	Property   string        `json:"property"`
	Engine     string        `json:"engine"`
	Test       string        `json:"test"`
	Setup      []Op          `json:"setup"`
	Cmds       []ConcCmd     `json:"cmds"`
	Actions    []SchedAction `json:"actions,omitempty"` // empty = free-running
	Violations []Violation   `json:"violations,omitempty"`
	Note       string        `json:"note,omitempty"`
	// LockMissing: .ergo/lock is removed before the concurrent phase (it is not state; the
	// manual says it is recreated on demand)
	LockMissing bool `json:"lock_missing,omitempty"`
	BigLogMB    int  `json:"big_log_mb,omitempty"`
	// TornTail: bytes of an unparsable fragment at the end of the log (crash residue)
	TornTail int `json:"torn_tail,omitempty"`
	// OldLock: the lock file's mtime is set hours into the past (nothing ever writes to it)
	OldLock bool `json:"old_lock,omitempty"`
	// Legacy: the store uses the legacy file name events.jsonl
	Legacy bool `json:"legacy_name,omitempty"`
	// StaleTmp: a temp file of a killed whole-file rewrite lies next to the log (1 = a byte
	// prefix of the log, 2 = twice the log, 3 = longer than the log and ending mid-line)
	StaleTmp int `json:"stale_tmp,omitempty"`
	// FutureLog: every time stamp of the log is two hours ahead (the store was built on a
	// host with a fast clock and came over by git); CraftedTasks: that many extra ready
	// tasks whose creation times lie in one second of the past and differ only in the
	// fraction (written with and without trailing digits)
	FutureLog    bool `json:"future_log,omitempty"`
	CraftedTasks int  `json:"crafted_tasks,omitempty"`
	// LongLog: that many repeated title events of one task are appended (a store that has
	// seen hundreds of edits of a few items: far more events than live items)
	LongLog int `json:"long_log_events,omitempty"`
}

// applyLongLog retitles one task and repeats that event n times in the log.
func (w *World) applyLongLog(pre *Snapshot, n int) *Snapshot {
	if n <= 0 {
		return pre
	}
	ids := pre.SortedIDs()
	if len(ids) == 0 {
		return pre
	}
	r := Run(Cmd{Args: []string{"--json", "set", ids[0], "--title", "edited many times"}, Dir: w.Root})
	if !r.OK() {
		return pre
	}
	b := ReadLog(w.Root)
	lines, rest := LogLines(b)
	if rest != "" || len(lines) == 0 || !strings.Contains(lines[len(lines)-1], `"title"`) {
		return pre
	}
	f, err := os.OpenFile(LogPath(w.Root), os.O_APPEND|os.O_WRONLY, 0o644)
	if err != nil {
		return pre
	}
	f.WriteString(strings.Repeat(lines[len(lines)-1]+"\n", n))
	f.Close()
	if post, err := TakeSnapshot(w.Root); err == nil {
		return post
	}
	return pre
}

// schedLegacy tells the op generators that the store of the current case uses the legacy
// log name.
var schedLegacy bool

var stampRe = regexp.MustCompile(`"(\d{4}-\d{2}-\d{2}T\d{2}:\d{2}:\d{2}(?:\.\d+)?Z)"`)

// applyClockPre rewrites time stamps of the store (see SchedCase.FutureLog / CraftedTasks)
// and returns the snapshot to start from.
func (w *World) applyClockPre(pre *Snapshot, future bool, crafted int) *Snapshot {
	if !future && crafted == 0 {
		return pre
	}
	fractions := []string{"", ".25", ".5", ".500001", ".5000011"}
	var ids []string
	for i := 0; i < crafted && i < len(fractions); i++ {
		r := Run(Cmd{Args: []string{"--json", "new", "task", "--title", fmt.Sprintf("made within one second %d", i)}, Dir: w.Root})
		var m map[string]any
		if r.OK() && StrictJSON(r.Stdout, &m) == nil {
			ids = append(ids, asString(m["id"]))
		}
	}
	path := LogPath(w.Root)
	b, err := os.ReadFile(path)
	if err != nil {
		return pre
	}
	lines, rest := LogLines(b)
	for i, id := range ids {
		for k, l := range lines {
			var ev LogEvent
			if json.Unmarshal([]byte(l), &ev) == nil && ev.Type == "new_task" && ev.Str("id") == id {
				lines[k] = strings.ReplaceAll(l, `"`+ev.TS+`"`, `"2026-01-01T09:00:00`+fractions[i]+`Z"`)
			}
		}
	}
	text := strings.Join(lines, "\n") + "\n" + rest
	if future {
		text = stampRe.ReplaceAllStringFunc(text, func(q string) string {
			if ts, ok := timeParse(q[1 : len(q)-1]); ok {
				return `"` + ts.Add(2*time.Hour).UTC().Format(time.RFC3339Nano) + `"`
			}
			return q
		})
	}
	_ = os.WriteFile(path, []byte(text), 0o644)
	w.Skewed = true
	post, err := TakeSnapshot(w.Root)
	if err != nil {
		return pre
	}
	for id := range post.Items {
		if !w.Seen[id] {
			w.AddID(id, 950)
		}
	}
	return post
}

// genActions draws a controller schedule: every command is started once; a parked
// command is resumed at a drawn later moment.
func genActions(t *rapid.T, n int) []SchedAction {
	var acts []SchedAction
	toStart := rapid.Permutation(seqInts(n)).Draw(t, "start.order")
	var started []int
	resumed := map[int]int{}
	for len(toStart) > 0 || len(started) > 0 {
		canResume := len(started) > 0
		if len(toStart) > 0 && (!canResume || pct(t, 60, "act.start")) {
			i := toStart[0]
			toStart = toStart[1:]
			acts = append(acts, SchedAction{"start", i})
			started = append(started, i)
			continue
		}
		k := uni(t, len(started), "act.resume")
		i := started[k]
		acts = append(acts, SchedAction{"resume", i})
		resumed[i]++
		if resumed[i] >= 2 {
			started = append(started[:k], started[k+1:]...)
		}
	}
	return acts
}

// pickPark chooses a park point for op, biased to the interesting windows: between
// opening the lock file and flock, inside the lock section, around the writes.
func pickPark(t *rapid.T, pts []Inject, label string) *Inject {
	if len(pts) == 0 {
		return nil
	}
	// half of the time aim at the window before the lock is taken (everything a command
	// reads there may be stale by the time it holds the lock)
	if pct(t, 45, label+".prelock") {
		for i, p := range pts {
			if p.Syscall == "flock" && i > 0 {
				q := pts[uni(t, i, label+".pre")]
				return &q
			}
		}
	}
	p := pts[uni(t, len(pts), label)]
	return &p
}

// genClaimRace draws claims plus disturbers that change which task is the oldest ready
// one: reopening or unblocking an older task, finishing / blocking / moving the current
// head, finishing a dependency, creating a task.
func genClaimRace(t *rapid.T, w *World, pre *Snapshot, n int) []Op {
	g := refGen{t, w, pre}
	var ops []Op
	epics := g.ids(func(it *Item) bool { return it.IsEpic })
	tasks := g.ids(func(it *Item) bool { return !it.IsEpic })
	claims := 0
	for i := 0; i < n; i++ {
		op := Op{N: 1000 + i}
		if pct(t, 62, "race.claim") || (i == n-1 && claims == 0) || len(tasks) == 0 {
			op.Kind, op.Agent = "claim", oneOf(t, agents, "agent")
			if len(epics) > 0 && pct(t, 30, "race.epic") {
				r := g.ref(oneOf(t, epics, "epicref"))
				op.EpicFilter = &r
			}
			claims++
			ops = append(ops, op)
			continue
		}
		rewritePct := 14
		if schedLegacy {
			rewritePct = 50 // a legacy-named log is what a compaction might want to "migrate"
		}
		if pct(t, rewritePct, "race.rewrite") {
			// the whole-file rewrites and the bulk delete race with claims too
			op.Kind = oneOf(t, []string{"compact", "compact", "prune_yes"}, "race.rewrite.kind")
			ops = append(ops, op)
			continue
		}
		id := oneOf(t, tasks, "race.target")
		// prefer a finished / blocked task that is older than some ready task: reopening it
		// changes the head of the queue
		if groups := ReadyInOrder(pre, ""); len(groups) > 0 && pct(t, 60, "race.older") {
			youngest := pre.Items[groups[len(groups)-1][0]].CreatedAt
			var older []string
			for _, x := range tasks {
				xi := pre.Items[x]
				if (finished(xi.State) || (xi.State == "blocked" && xi.ClaimedBy == "")) && timeLess(xi.CreatedAt, youngest) {
					older = append(older, x)
				}
			}
			if len(older) > 0 {
				id = oneOf(t, older, "race.older.which")
			}
		}
		it := pre.Items[id]
		r := g.ref(id)
		op.Kind, op.Mode, op.Target, op.Agent = "set", "json", &r, oneOf(t, agents, "agent")
		var allowed []string
		for _, s := range []string{"todo", "done", "blocked", "canceled"} {
			if transitionTable[it.State][s] {
				allowed = append(allowed, s)
			}
		}
		switch {
		case len(allowed) > 0 && pct(t, 70, "race.state"):
			st := oneOf(t, allowed, "state")
			if (it.State == "done" || it.State == "canceled" || it.State == "blocked") && pct(t, 70, "race.reopen") {
				st = "todo"
			}
			op.State = &st
		case len(epics) > 0:
			e := Lit("")
			if pct(t, 70, "race.move") {
				e = g.ref(oneOf(t, epics, "moveto"))
			}
			op.Epic = &e
		default:
			op = Op{N: 1000 + i, Kind: "new_task", Mode: "json", Title: sp(w.UniqueTitle("racer"))}
		}
		ops = append(ops, op)
	}
	return ops
}

type schedSpec struct {
	bigLogPct  int  // percent of cases whose store holds a multi-megabyte log
	growthOnly bool // judge only "history only grows" (C12), observed between controller actions
	genOps     func(t *rapid.T, w *World, pre *Snapshot, n int) []Op
	prop       string
	test       string
	rule       string
	kinds      map[string]int // op kinds of the concurrent commands
	minN       int
	maxN       int
	setup      Profile
	extra      func(pre, final *Snapshot, cmds []ConcCmd) []string
	// longLogPct: percent of cases whose log holds hundreds of edits of one item
	longLogPct int
	// clockPct: percent of cases whose store has unusual time stamps (whole log two hours
	// ahead, or ready tasks created within one second)
	clockPct int
	// holderInit forces the lock-holder template with an `init` bystander in most cases
	holderInit bool
	// mutex makes "the log changed while another process was stopped inside its lock
	// section" a violation of this check's property (always on for C01 / C02)
	mutex bool
}

func overlapping(cmds []ConcCmd) bool {
	for i := range cmds {
		for j := range cmds {
			if i < j && cmds[i].Start < cmds[j].End && cmds[j].Start < cmds[i].End {
				return true
			}
		}
	}
	return false
}

func (sp schedSpec) judge(w *World, pre *Snapshot, cmds []ConcCmd) (viol []Violation, final *Snapshot) {
	final, err := TakeSnapshot(w.Root)
	if err != nil {
		return []Violation{{sp.prop, "store unreadable after the concurrent phase: " + err.Error()}}, nil
	}
	// the log must be a sequence of whole JSON lines
	lines, rest := LogLines(final.Log)
	if rest != "" && !strings.Contains(rest, `"id":"ZZZZZZ"`) {
		viol = append(viol, Violation{sp.prop, fmt.Sprintf("log ends in an unterminated fragment after all commands returned: %q", clip(rest, 80))})
	}
	for i, l := range lines {
		if strings.TrimSpace(l) != "" && !json.Valid([]byte(l)) {
			viol = append(viol, Violation{sp.prop, fmt.Sprintf("log line %d is not a whole JSON value: %q", i+1, clip(l, 80))})
			break
		}
	}
	for _, c := range cmds {
		if !c.ok() && !c.Hung && strings.TrimSpace(c.Err) == "" {
			viol = append(viol, Violation{sp.prop, "a command failed without saying why"})
		}
	}
	if d := w.linearize(pre, final, cmds); d != nil {
		viol = append(viol, Violation{sp.prop, "no serial order of the acknowledged commands explains the replies and the final state: " + clip(strings.Join(d, " | "), 900)})
	}
	if sp.extra != nil {
		for _, m := range sp.extra(pre, final, cmds) {
			viol = append(viol, Violation{sp.prop, m})
		}
	}
	return viol, final
}

func runSchedTest(t *testing.T, sp schedSpec) {
	if err := StraceAvailable(); err != nil {
		t.Skipf("INFRA: %v", err)
	}
	if os.Getenv("VERIF_MINIMIZE_IN") != "" {
		return
	}
	if p := os.Getenv("VERIF_REPLAY_IN"); p != "" {
		b, err := os.ReadFile(p)
		if err != nil {
			t.Fatal(err)
		}
		var sc SchedCase
		if err := json.Unmarshal(b, &sc); err != nil {
			t.Fatal(err)
		}
		// schedule-dependent cases are re-run several times: any failing run counts
		for rep := 0; rep < 5; rep++ {
			w := NewWorld(sp.prop + "-replay")
			pre, _ := TakeSnapshot(w.Root)
			for _, op := range sc.Setup {
				out := w.Step(pre, op)
				if out.Post == nil {
					break
				}
				pre = out.Post
			}
			if sc.BigLogMB > 0 {
				Run(Cmd{Args: []string{"--json", "new", "task", "--body-stdin", "--title", "big body"}, Mode: StdinPipe, Stdin: bigBody(sc.BigLogMB << 20), Dir: w.Root})
				if pre2, err := TakeSnapshot(w.Root); err == nil {
					for id := range pre2.Items {
						if !w.Seen[id] {
							w.AddID(id, 900)
						}
					}
					pre = pre2
				}
			}
			pre = w.applyClockPre(pre, sc.FutureLog, sc.CraftedTasks)
			pre = w.applyLongLog(pre, sc.LongLog)
			if sc.LockMissing {
				os.Remove(filepath.Join(w.Root, ".ergo", "lock"))
			}
			schedPre{TornTail: sc.TornTail, OldLock: sc.OldLock, Legacy: sc.Legacy, StaleTmp: sc.StaleTmp}.apply(w.Root)
			cmds := make([]ConcCmd, len(sc.Cmds))
			for i, c := range sc.Cmds {
				cmds[i] = ConcCmd{Op: c.Op, Park: c.Park}
			}
			var growth, mutex, sameLog []string
			probeReads = sp.growthOnly
			if len(sc.Actions) > 0 {
				sr := w.runSchedule(cmds, sc.Actions)
				if sr.uncontrolled {
					w.Close()
					t.Logf("repetition %d: a process believed stopped was running; execution not judged", rep)
					continue
				}
				cmds, growth, mutex, sameLog = sr.cmds, sr.growth, sr.mutex, sr.sameLog
			} else {
				cmds = w.runFree(cmds)
			}
			viol, _ := sp.judge(w, pre, cmds)
			if sp.growthOnly {
				viol = nil
			}
			if sp.growthOnly || sp.prop == "C02" {
				for _, g := range growth {
					viol = append(viol, Violation{sp.prop, g})
				}
			}
			if sp.growthOnly {
				for _, g := range sameLog {
					viol = append(viol, Violation{sp.prop, g})
				}
			}
			if sp.prop == "C02" || sp.prop == "C01" || sp.mutex {
				for _, g := range mutex {
					viol = append(viol, Violation{sp.prop, g})
				}
			}
			w.Close()
			if len(viol) > 0 {
				t.Fatalf("REPLAY-VIOLATION %s: %v", sp.prop, viol)
			}
		}
		return
	}
	stats := NewStats(sp.prop, "SCHED", sp.rule)
	defer stats.Flush()
	deadline := budgetDeadline()
	replayPath := ReplayOutPath(sp.prop)
	rapid.Check(t, func(rt *rapid.T) {
		if !deadline.IsZero() && time.Now().After(deadline) {
			stats.Shortfall = "wall-clock guard reached before all requested cases ran"
			return
		}
		w := NewWorld(sp.prop)
		defer w.Close()
		var setup []Op
		pre, err := TakeSnapshot(w.Root)
		if err != nil {
			rt.Fatalf("fresh store unreadable")
		}
		bigMB := 0
		nsetup := between(rt, 3, 10, "setup.n")
		for i := 0; i < nsetup; i++ {
			op := genOp(rt, w, pre, sp.setup)
			op.N = i
			out := w.Step(pre, op)
			if out.Post == nil || out.Abort != "" || len(out.Viol) > 0 {
				stats.Abort("setup history hit a violation of another property")
				return
			}
			setup = append(setup, op)
			pre = out.Post
		}
		if sp.bigLogPct > 0 && pct(rt, sp.bigLogPct, "big.log") {
			// a multi-megabyte log: replaying it makes the garbage collector run inside the
			// lock section (anything that only a finalizer keeps alive shows up here)
			size := between(rt, 4, 8, "big.mb") << 20
			r := Run(Cmd{Args: []string{"--json", "new", "task", "--body-stdin", "--title", "big body"}, Mode: StdinPipe, Stdin: bigBody(size), Dir: w.Root})
			if r.OK() {
				bigMB = size >> 20
				if pre2, err := TakeSnapshot(w.Root); err == nil {
					for id := range pre2.Items {
						if !w.Seen[id] {
							w.AddID(id, 900)
						}
					}
					pre = pre2
				}
				stats.Label("log_of_several_megabytes")
			}
		}
		futureLog, craftedTasks := false, 0
		if sp.clockPct > 0 && pct(rt, sp.clockPct, "clock.pre") {
			if pct(rt, 50, "clock.future") {
				futureLog = true
				stats.Label("whole_log_dated_two_hours_ahead")
			} else {
				craftedTasks = between(rt, 2, 5, "clock.crafted")
				stats.Label("ready_tasks_created_within_one_second")
			}
			pre = w.applyClockPre(pre, futureLog, craftedTasks)
		}
		longLog := 0
		if sp.longLogPct > 0 && pct(rt, sp.longLogPct, "long.log") {
			longLog = between(rt, 260, 400, "long.log.n")
			pre = w.applyLongLog(pre, longLog)
			stats.Label("log_with_hundreds_of_edits_of_one_item")
		}
		lockMissing := pct(rt, 20, "lock.missing")
		if lockMissing {
			os.Remove(filepath.Join(w.Root, ".ergo", "lock"))
			stats.Label("lock_file_missing_at_start")
		}
		pc := schedPre{}
		if !lockMissing && pct(rt, 12, "lock.old") {
			pc.OldLock = true
		}
		if pct(rt, 10, "legacy") {
			pc.Legacy = true
		}
		if pct(rt, 10, "torn") {
			pc.TornTail = between(rt, 5, 90, "torn.size")
		}
		if pct(rt, 12, "stale.tmp") {
			pc.StaleTmp = 1 + uni(rt, 3, "stale.tmp.kind")
			stats.Label("stale_temp_file_at_start")
		}
		pc.apply(w.Root)
		schedLegacy = pc.Legacy
		if pc.OldLock {
			stats.Label("lock_file_hours_old")
		}
		if pc.Legacy {
			stats.Label("legacy_file_name")
		}
		if pc.TornTail > 0 {
			stats.Label("torn_tail_at_start")
		}
		n := between(rt, sp.minN, sp.maxN, "conc.n")
		var ops []Op
		if sp.genOps != nil {
			ops = sp.genOps(rt, w, pre, n)
		} else {
			ops = genConcOps(rt, w, pre, sp.kinds, n)
		}
		cmds := make([]ConcCmd, n)
		free := pct(rt, 25, "free") && !sp.growthOnly
		var growth, mutex, sameLog []string
		probeReads = sp.growthOnly
		var actions []SchedAction
		for i := range ops {
			cmds[i] = ConcCmd{Op: ops[i]}
		}
		if !free {
			parked := 0
			for i := range cmds {
				if pct(rt, 65, fmt.Sprintf("park.%d", i)) || (i == n-1 && parked == 0) {
					cmds[i].Park = pickPark(rt, w.parkCandidates(cmds[i].Op), fmt.Sprintf("park.%d.at", i))
					if cmds[i].Park != nil {
						parked++
					}
				}
			}
			actions = genActions(rt, n)
			if pct(rt, 35, "template.stale") {
				// the stale-validation schedule: one command is stopped in the window before it
				// takes the lock (whatever it has read by then may be stale), every other command
				// runs to completion, then the stopped one goes on
				a := uni(rt, n, "stale.who")
				pts, lastAcq, firstUn := w.parkCandidatesGap(cmds[a].Op)
				var pre []Inject
				if lastAcq > 0 {
					// every point before the command's LAST lock acquisition: also the gap between
					// two lock sections of one command
					pre = pts[:lastAcq]
					if firstUn >= 0 && firstUn < lastAcq && pct(rt, 60, "stale.gap") {
						pre = pts[firstUn:lastAcq]
					}
				}
				if len(pre) > 0 {
					for i := range cmds {
						cmds[i].Park = nil
					}
					p := pre[uni(rt, len(pre), "stale.at")]
					cmds[a].Park = &p
					actions = []SchedAction{{"start", a}}
					for i := range cmds {
						if i != a {
							actions = append(actions, SchedAction{"start", i})
						}
					}
					actions = append(actions, SchedAction{"resume", a}, SchedAction{"resume", a})
					stats.Label("schedule.stale_validation_template")
				}
			}
			tplN := 100
			if lockMissing {
				tplN = 40 // both commands then run the "recreate the lock file" path: more weight on the templates below
			}
			tpl := uni(rt, tplN, "template.more")
			if sp.holderInit && pct(rt, 80, "holder.forced") {
				tpl = 0
			}
			switch {
			case tpl < 12 && n >= 2:
				// lock-holder template: one command is stopped right inside its lock section, all
				// others run (they must bounce off with lock busy, whatever else happens - an
				// `init` that recreates the lock file included), then the holder goes on
				a := uni(rt, n, "holder.who")
				if pts, lastAcq := w.parkCandidatesEx(cmds[a].Op); lastAcq >= 0 && lastAcq < len(pts) {
					hi := lastAcq + uni(rt, min(4, len(pts)-lastAcq), "holder.at")
					for i := range cmds {
						cmds[i].Park = nil
					}
					p := pts[hi]
					cmds[a].Park = &p
					actions = []SchedAction{{"start", a}}
					if pct(rt, 50, "holder.init") || sp.holderInit {
						// a bystander re-runs init while the lock is held (it must not disturb it)
						cmds = append(cmds, ConcCmd{Op: Op{N: 1000 + len(cmds), Kind: "init"}})
						actions = append(actions, SchedAction{"start", len(cmds) - 1})
					}
					for i := range cmds {
						if i != a && cmds[i].Op.Kind != "init" {
							actions = append(actions, SchedAction{"start", i})
						}
					}
					actions = append(actions, SchedAction{"resume", a}, SchedAction{"resume", a})
					stats.Label("schedule.lock_holder_template")
					if pct(rt, 30, "holder.enolck") {
						// one of the others finds the kernel out of lock records (ENOLCK) while the
						// holder is inside: "cannot lock" must not become "need not lock"
						for i := range cmds {
							if i != a && cmds[i].Op.Kind != "init" {
								cmds[i].Park = &Inject{Syscall: "flock", When: 1, Kind: "error", Errno: oneOf(rt, []string{"ENOLCK", "ENOLCK", "EINTR", "ENOSYS"}, "holder.errno")}
								stats.Label("schedule.flock_fails_for_a_bystander")
								break
							}
						}
					}
				}
			case tpl < 24 && n >= 2:
				// held-lock-in-the-gap template: command b is stopped somewhere before its LAST
				// lock acquisition (for a command with two lock sections: possibly between them),
				// command a is then stopped holding the lock, b goes on and meets the held lock
				b := uni(rt, n, "gap.who")
				a := (b + 1 + uni(rt, n-1, "gap.other")) % n
				ptsB, lastB, unB := w.parkCandidatesGap(cmds[b].Op)
				ptsA, lastA := w.parkCandidatesEx(cmds[a].Op)
				if lastB > 0 && lastA >= 0 {
					for i := range cmds {
						cmds[i].Park = nil
					}
					pb := ptsB[uni(rt, lastB, "gap.at")]
					if unB >= 0 && unB < lastB && pct(rt, 75, "gap.real") {
						// the command has two lock sections: aim between them
						pb = ptsB[unB+uni(rt, lastB-unB, "gap.between")]
					}
					// the holder stops right after taking the lock or a few calls later (after it
					// has read the log: whatever it decides then rests on that read)
					pa := ptsA[lastA+uni(rt, min(4, len(ptsA)-lastA), "gap.holder.at")]
					cmds[b].Park, cmds[a].Park = &pb, &pa
					actions = []SchedAction{{"start", b}, {"start", a}, {"resume", b}, {"resume", b}, {"resume", a}, {"resume", a}}
					for i := range cmds {
						if i != a && i != b {
							actions = append(actions, SchedAction{"start", i})
						}
					}
					stats.Label("schedule.held_lock_in_the_gap_template")
				}
			}
			sr := w.runSchedule(cmds, actions)
			if sr.uncontrolled {
				// strace's per-thread stop lines made a running process look parked: which
				// process changed the log between two reads is then unknown
				stats.Label("schedule.not_controlled_execution_not_judged")
				stats.Eval()
				return
			}
			for _, c := range sr.cmds {
				if strings.HasPrefix(c.Err, "harness:") {
					// the command could not even be started (argument list too long ...)
					stats.Label("harness.could_not_start_a_command_execution_not_judged")
					stats.Eval()
					return
				}
			}
			cmds = sr.cmds
			growth, mutex, sameLog = sr.growth, sr.mutex, sr.sameLog
			if sr.lockOverlap {
				stats.Label("started_while_another_is_parked_holding_the_lock")
			}
		} else {
			cmds = w.runFree(cmds)
			stats.Label("free_running")
		}
		viol, _ := sp.judge(w, pre, cmds)
		if sp.growthOnly {
			viol = nil
		}
		if sp.growthOnly || sp.prop == "C02" {
			for _, g := range growth {
				viol = append(viol, Violation{sp.prop, g})
			}
		}
		if sp.growthOnly {
			for _, g := range sameLog {
				viol = append(viol, Violation{sp.prop, g})
			}
		}
		if sp.prop == "C02" || sp.prop == "C01" || sp.mutex {
			for _, g := range mutex {
				viol = append(viol, Violation{sp.prop, g})
			}
		}
		if len(viol) > 0 {
			WriteReplay(replayPath, SchedCase{Property: sp.prop, Engine: "SCHED", Test: sp.test, Setup: setup, Cmds: cmds, Actions: actions, Violations: viol, LockMissing: lockMissing, BigLogMB: bigMB, TornTail: pc.TornTail, OldLock: pc.OldLock, Legacy: pc.Legacy, StaleTmp: pc.StaleTmp, FutureLog: futureLog, CraftedTasks: craftedTasks, LongLog: longLog})
			rt.Fatalf("%s violated: %v", sp.prop, viol)
		}
		stats.Eval()
		busy, okN, parks := 0, 0, 0
		var canon []string
		for _, c := range cmds {
			if c.lockBusy() {
				busy++
			}
			if c.ok() {
				okN++
			}
			parks += c.Parks
			pk := "-"
			if c.Park != nil {
				pk = fmt.Sprintf("%s#%d", c.Park.Syscall, c.Park.When)
			}
			canon = append(canon, fmt.Sprintf("%s/%s@%s", c.Op.Kind, fieldSig(c.Op), pk))
			stats.Label("cmd." + c.Op.Kind)
		}
		stats.LabelN("lock_busy_replies", busy)
		stats.LabelN("parks_observed", parks)
		if overlapping(cmds) {
			stats.Label("overlapping_executions")
			if parks > 0 || free {
				as, _ := json.Marshal(actions)
				stats.NonTrivial(strings.Join(canon, ";") + string(as))
			}
		}
		var desc []string
		for i, c := range cmds {
			pk := ""
			if c.Park != nil {
				pk = fmt.Sprintf(" [parked after %s #%d, %d parks seen]", c.Park.Syscall, c.Park.When, c.Parks)
			}
			desc = append(desc, fmt.Sprintf("#%d %s%s -> exit %d [%d,%d] %s", i, strings.Join(c.cmd.Args, " "), pk, c.Exit, c.Start, c.End, clip(strings.TrimSpace(c.Err), 60)))
		}
		stats.Sample(len(cmds)+len(actions), map[string]any{"setup_commands": len(setup), "commands": desc, "schedule": actions, "free_running": free})
	})
}

var claimSetup = Profile{Name: "claim-setup", Weights: map[string]int{"new_task": 38, "new_epic": 12, "set": 18, "sequence": 18, "plan": 4, "prune_yes": 2, "claim": 3},
	BadRef: 0, Spoil: 0, Results: 0, EpicPct: 55, SeqEpicPct: 45, StatePool: []string{"todo", "done", "done", "blocked", "canceled", "doing", "error"}, StatePct: 40}

func TestC01(t *testing.T) {
	runSchedTest(t, schedSpec{
		prop: "C01", test: "TestC01",
		rule:   "a generated store (short random history) and 2-4 concurrent commands - mostly `claim` (with / without --epic) plus disturbers that reopen, finish, move or create tasks or rewrite the log (`set`, `new task`, `prune --yes`, `compact`) -, on a store whose time stamps are in a quarter of the cases unusual (the whole log two hours ahead of the clock, or 2-5 ready tasks created within one second, stamps written with and without trailing digits), each optionally parked by the controller right after a drawn system call on the store's files (strace SIGSTOP injection) and resumed at a drawn later moment, or all free-running; oracle: some serial order consistent with real time in which every successful claim returns the model's oldest ready task at that position and the final state matches, lock-busy claims contribute nothing, no id is handed out twice; non-trivial = executions overlap and at least one park landed (or free-running); distinct = (commands, park points, controller schedule)",
		genOps: genClaimRace, minN: 2, maxN: 4, setup: claimSetup, bigLogPct: 14, clockPct: 24, longLogPct: 9,
		extra: func(pre, final *Snapshot, cmds []ConcCmd) []string {
			var out []string
			seen := map[string]int{}
			for _, c := range cmds {
				if c.Op.Kind != "claim" && c.ok() {
					return nil // with disturbers the serial-order oracle alone decides
				}
			}
			for i, c := range cmds {
				if c.Op.Kind != "claim" || !c.ok() || c.reply == nil || asString(c.reply["status"]) == "no_ready" {
					continue
				}
				id := asString(c.reply["id"])
				if j, dup := seen[id]; dup {
					out = append(out, fmt.Sprintf("task %s was handed to two claimants (#%d and #%d)", id, j, i))
				}
				seen[id] = i
				it := final.Items[id]
				if it == nil {
					out = append(out, fmt.Sprintf("claimed task %s does not exist afterwards", id))
				} else if it.State != "doing" || it.ClaimedBy != asString(c.reply["agent_id"]) {
					out = append(out, fmt.Sprintf("task %s was handed to %q but is %s / claimed by %q afterwards", id, asString(c.reply["agent_id"]), it.State, it.ClaimedBy))
				}
			}
			return out
		},
	})
}

var mixedKinds = map[string]int{"new_task": 16, "new_epic": 5, "set": 22, "claim": 10, "claim_id": 6, "sequence": 12, "sequence_rm": 3, "plan": 8, "prune_yes": 8, "compact": 10, "init": 5}

func TestC02(t *testing.T) {
	runSchedTest(t, schedSpec{
		prop: "C02", test: "TestC02",
		rule:  "a generated store and 2-4 concurrent commands drawn from {new task, new epic, set, claim, claim <id>, sequence, sequence rm, plan, prune --yes, compact, init}, each optionally parked right after a drawn system call on the store's files and resumed at a drawn later moment (or free-running); oracle: linearizability against the reference model (replies and final state explained by some serial order of the acknowledged commands consistent with real time; failed commands, lock busy included, contribute nothing), the log is whole JSON lines, and no command fails to return while another is parked; non-trivial = executions overlap and at least one park landed (or free-running); distinct = (commands, park points, controller schedule)",
		kinds: mixedKinds, minN: 2, maxN: 4, setup: setupProfile, bigLogPct: 14,
	})
}

func TestC07Conc(t *testing.T) {
	runSchedTest(t, schedSpec{
		prop: "C07", test: "TestC07Conc",
		rule:   "a generated store and 2-3 concurrent `sequence` / `sequence rm` commands (opposite edges, overlapping chains), parked / resumed by the controller or free-running; oracle: linearizability against the reference edge model plus acyclicity / same-kind / live-endpoint / mirror invariants of the final graph; non-trivial = executions overlap and at least one park landed (or free-running)",
		genOps: genSequenceRace, minN: 2, maxN: 3,
		setup: Profile{Name: "graph-setup", Weights: map[string]int{"new_task": 50, "new_epic": 14, "sequence": 16, "set": 8, "plan": 4}, EpicPct: 30, StatePct: 10, ClaimPct: -1},
		extra: func(pre, final *Snapshot, cmds []ConcCmd) []string {
			var out []string
			for _, v := range CheckInvariants(final) {
				if v.Prop == "C07" {
					out = append(out, v.Msg)
				}
			}
			return out
		},
	})
}

func TestC11Conc(t *testing.T) {
	runSchedTest(t, schedSpec{
		prop: "C11", test: "TestC11Conc",
		rule: "a generated store and 2-3 concurrent commands, at least one of them `plan` (the others: plan, new task, set, sequence, claim, compact), parked / resumed by the controller or free-running; oracle: linearizability against the reference model - every acknowledged plan is present whole (one epic, its tasks in order, exactly its edges), nothing that existed before or was acknowledged meanwhile is altered or lost; non-trivial = executions overlap and at least one park landed (or free-running)",
		minN: 2, maxN: 3, setup: setupProfile,
		genOps: func(t *rapid.T, w *World, pre *Snapshot, n int) []Op {
			ops := genConcOps(t, w, pre, map[string]int{"plan": 30, "new_task": 20, "set": 20, "sequence": 10, "claim": 8, "compact": 8, "prune_yes": 4}, n)
			k := uni(t, n, "plan.slot")
			ops[k] = Op{N: 1000 + k, Kind: "plan", Plan: genRichPlan(t, w)}
			for i := range ops {
				if ops[i].Kind == "plan" && ops[i].Plan != nil && len(ops[i].Plan.Tasks) > 6 {
					ops[i].Plan.Tasks = ops[i].Plan.Tasks[:6]
					for j := range ops[i].Plan.Tasks {
						var keep []string
						for _, a := range ops[i].Plan.Tasks[j].After {
							for _, t2 := range ops[i].Plan.Tasks {
								if *t2.Title == a {
									keep = append(keep, a)
									break
								}
							}
						}
						ops[i].Plan.Tasks[j].After = keep
					}
				}
			}
			return ops
		},
	})
}

func TestC12Conc(t *testing.T) {
	runSchedTest(t, schedSpec{
		prop: "C12", test: "TestC12Conc", growthOnly: true,
		rule:  "a generated store and 2-4 concurrent mutating commands (appends and plan's whole-file rewrite mixed, compact excluded from the judgement) parked / resumed by the controller; the log is read after every controller action (exactly one process runs between two reads); oracle: every change keeps all earlier events, in order, with unchanged content; and two reads (`list --all`, JSON and human) made while the log holds the same bytes print the same thing, whoever is stopped wherever (holding the lock, between two steps of a rewrite) at the time; non-trivial = executions overlap and at least one park landed",
		kinds: map[string]int{"new_task": 20, "set": 22, "claim": 8, "sequence": 10, "plan": 22, "prune_yes": 8, "compact": 6, "new_epic": 4}, minN: 2, maxN: 4, setup: setupProfile,
	})
}

// genPruneRace draws one prune --yes plus writers that change what is finished: reopening
// a done task, finishing an open one, adding a child to an epic whose children are all
// finished, moving a task into an empty epic.
func genPruneRace(t *rapid.T, w *World, pre *Snapshot, n int) []Op {
	g := refGen{t, w, pre}
	tasks := g.ids(func(it *Item) bool { return !it.IsEpic })
	epics := g.ids(func(it *Item) bool { return it.IsEpic })
	ops := []Op{{N: 1000, Kind: "prune_yes", Agent: "pruner"}}
	for i := 1; i < n; i++ {
		op := Op{N: 1000 + i, Mode: "json", Agent: oneOf(t, agents, "agent")}
		switch {
		case len(epics) > 0 && pct(t, 30, "race.child"):
			e := g.ref(oneOf(t, epics, "epic"))
			op.Kind, op.Title, op.Epic = "new_task", sp(w.UniqueTitle("late child")), &e
		case len(tasks) > 0:
			id := oneOf(t, tasks, "target")
			it := pre.Items[id]
			r := g.ref(id)
			op.Kind, op.Target = "set", &r
			switch {
			case finished(it.State):
				op.State = sp("todo")
			case len(epics) > 0 && pct(t, 35, "race.move"):
				e := g.ref(oneOf(t, epics, "moveto"))
				op.Epic = &e
			case transitionTable[it.State]["done"]:
				op.State = sp("done")
			default:
				op.Title = sp(w.UniqueTitle("renamed"))
			}
		default:
			op.Kind, op.Title = "new_task", sp(w.UniqueTitle("late"))
		}
		ops = append(ops, op)
	}
	// shuffle positions so that prune is not always command 0
	perm := rapid.Permutation(seqInts(len(ops))).Draw(t, "perm")
	out := make([]Op, len(ops))
	for i, p := range perm {
		out[i] = ops[p]
		out[i].N = 1000 + i
	}
	return out
}

func TestC09Conc(t *testing.T) {
	runSchedTest(t, schedSpec{
		prop: "C09", test: "TestC09Conc",
		rule:   "a generated store with finished and open tasks in and outside epics, one `prune --yes` and 1-2 concurrent writers that change what is finished (reopen a done task, finish an open one, add a child to an epic, move a task into an epic), parked / resumed by the controller or free-running; oracle: linearizability against the reference model - the reported pruned_ids are exactly the finished work at prune's position in the serial order, nothing unfinished and no epic with a child is removed; non-trivial = executions overlap and at least one park landed (or free-running)",
		genOps: genPruneRace, minN: 2, maxN: 3,
		setup: Profile{Name: "prune-setup", Weights: map[string]int{"new_task": 44, "new_epic": 12, "set": 30, "sequence": 8, "plan": 3}, EpicPct: 55, StatePool: []string{"done", "done", "canceled", "todo", "blocked"}, StatePct: 60, ClaimPct: -1},
	})
}

// schedPre are store conditions that are not state: crash residue at the end of the log,
// an old lock file, the legacy log name. Every command must cope with them.
type schedPre struct {
	TornTail   int
	OldLock    bool
	Legacy     bool
	StaleTmp   int
	SymlinkLog bool // the log is a symbolic link to a file outside .ergo (a shared store)
}

func (p schedPre) apply(root string) {
	if p.Legacy {
		plans := filepath.Join(root, ".ergo", "plans.jsonl")
		if _, err := os.Stat(plans); err == nil {
			_ = os.Rename(plans, filepath.Join(root, ".ergo", "events.jsonl"))
		}
	}
	if p.SymlinkLog {
		lp := LogPath(root)
		if fi, err := os.Lstat(lp); err == nil && fi.Mode().IsRegular() {
			real := filepath.Join(root, "shared-log.jsonl")
			if os.Rename(lp, real) == nil {
				_ = os.Symlink(filepath.Join("..", "shared-log.jsonl"), lp)
			}
		}
	}
	if b := ReadLog(root); p.TornTail > 0 && (len(b) == 0 || b[len(b)-1] == '\n') {
		frag := `{"type":"state","ts":"2026-01-01T00:00:00Z","data":{"id":"ZZZZZZ","state":"do` + bigBody(p.TornTail)
		if f, err := os.OpenFile(LogPath(root), os.O_APPEND|os.O_WRONLY, 0o644); err == nil {
			f.WriteString(frag)
			f.Close()
		}
	}
	if b := ReadLog(root); p.StaleTmp > 0 && len(b) > 0 {
		var c []byte
		switch p.StaleTmp {
		case 1:
			c = b[:len(b)*2/3]
		case 2:
			c = append(append([]byte{}, b...), b...)
		default:
			c = append(append([]byte{}, b...), b[:len(b)*3/5]...)
		}
		_ = os.WriteFile(LogPath(root)+".tmp", c, 0o644)
	}
	if p.OldLock {
		old := time.Now().Add(-3 * time.Hour)
		_ = os.Chtimes(filepath.Join(root, ".ergo", "lock"), old, old)
	}
}

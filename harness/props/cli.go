// Package props holds the property checks for sandover/ergo and the machinery they
// share. Everything here is black-box: the system under test is the ergo binary named by
// VERIF_ERGO (built from /repo's working tree by the driver), driven through argv, stdin,
// cwd and the files under .ergo/.
package props

import (
	"bytes"
	"context"
	"encoding/json"
	"errors"
	"fmt"
	"io"
	"os"
	"os/exec"
	"path/filepath"
	"strings"
	"sync/atomic"
	"syscall"
	"time"
)

// StdinMode says what the child sees on fd 0.
type StdinMode int

const (
	StdinDevNull StdinMode = iota // /dev/null: a character device, i.e. "not piped" for ergo
	StdinPipe                     // a pipe carrying Stdin bytes
)

// Cmd is one ergo invocation.
type Cmd struct {
	Args  []string  `json:"args"`
	Stdin string    `json:"stdin,omitempty"`
	Mode  StdinMode `json:"mode"`
	Dir   string    `json:"-"` // working directory
	// StdoutFull connects stdout to /dev/full: every write to it fails with ENOSPC
	StdoutFull bool `json:"stdout_full,omitempty"`
	Env   []string  `json:"env,omitempty"`
}

// Res is what came back.
type Res struct {
	Stdout   string
	Stderr   string
	Code     int
	Signaled bool
	TimedOut bool
	Wall     time.Duration
}

func (r Res) OK() bool { return r.Code == 0 && !r.Signaled && !r.TimedOut }

var execCount int64

// ExecCount reports how many ergo processes this test process has started.
func ExecCount() int64 { return atomic.LoadInt64(&execCount) }

// ErgoBin returns the binary under test.
func ErgoBin() string {
	if p := os.Getenv("VERIF_ERGO"); p != "" {
		return p
	}
	return "/verif/.build/ergo"
}

// cmdTimeout bounds one ergo invocation. ergo commands take milliseconds; this limit
// is only there so that a hung child cannot wedge the harness. Hitting it is reported
// by the caller as infrastructure trouble unless the property itself is about
// termination (C12, C02), where the situation is constructed so that a hang is
// permanent.
var cmdTimeout = 60 * time.Second

// Run executes one ergo command.
func Run(c Cmd) Res {
	return RunBin(ErgoBin(), c)
}

func RunBin(bin string, c Cmd) Res {
	atomic.AddInt64(&execCount, 1)
	ctx, cancel := context.WithTimeout(context.Background(), cmdTimeout)
	defer cancel()
	cmd := exec.CommandContext(ctx, bin, c.Args...)
	cmd.Dir = c.Dir
	cmd.Env = append(baseEnv(), c.Env...)
	var out, errb bytes.Buffer
	cmd.Stdout = &out
	cmd.Stderr = &errb
	if c.StdoutFull {
		if f, err := os.OpenFile("/dev/full", os.O_WRONLY, 0); err == nil {
			defer f.Close()
			cmd.Stdout = f
		}
	}
	switch c.Mode {
	case StdinPipe:
		cmd.Stdin = strings.NewReader(c.Stdin)
	default:
		cmd.Stdin = nil // os/exec opens /dev/null
	}
	start := time.Now()
	err := cmd.Run()
	res := Res{Stdout: out.String(), Stderr: errb.String(), Wall: time.Since(start)}
	if err != nil {
		var ee *exec.ExitError
		if errors.As(err, &ee) {
			if ws, ok := ee.Sys().(syscall.WaitStatus); ok && ws.Signaled() {
				res.Signaled = true
				res.Code = 128 + int(ws.Signal())
			} else {
				res.Code = ee.ExitCode()
			}
		} else {
			res.Code = -1
			res.Stderr += "\n[harness] exec error: " + err.Error()
		}
		if ctx.Err() == context.DeadlineExceeded {
			res.TimedOut = true
		}
	}
	return res
}

func baseEnv() []string {
	return []string{
		"PATH=/usr/bin:/bin",
		"HOME=/nonexistent",
		"LANG=C.UTF-8",
		"LC_ALL=C.UTF-8",
		"TERM=dumb",
		"NO_COLOR=1",
	}
}

// StrictJSON decodes exactly one JSON value followed only by whitespace.
func StrictJSON(s string, v any) error {
	dec := json.NewDecoder(strings.NewReader(s))
	dec.UseNumber()
	if err := dec.Decode(v); err != nil {
		return err
	}
	var extra any
	if err := dec.Decode(&extra); err != io.EOF {
		return fmt.Errorf("more than one JSON value on stdout")
	}
	return nil
}

// ---- scratch space ----

var scratchSeq int64

// ScratchRoot is where stores live (tmpfs when available).
func ScratchRoot() string {
	if p := os.Getenv("VERIF_SCRATCH"); p != "" {
		return p
	}
	base := "/dev/shm"
	if st, err := os.Stat(base); err != nil || !st.IsDir() {
		base = os.TempDir()
	}
	return filepath.Join(base, fmt.Sprintf("ergo-verif-%d", os.Getpid()))
}

// NewScratchDir makes a fresh empty directory under the scratch root.
func NewScratchDir(tag string) string {
	n := atomic.AddInt64(&scratchSeq, 1)
	d := filepath.Join(ScratchRoot(), fmt.Sprintf("%s-%d-%d", tag, os.Getpid(), n))
	if err := os.MkdirAll(d, 0o755); err != nil {
		panic(err)
	}
	return d
}

// NewStore creates a project directory with an initialised .ergo and returns its root.
func NewStore(tag string) string {
	d := NewScratchDir(tag)
	r := Run(Cmd{Args: []string{"init"}, Dir: d})
	if !r.OK() {
		panic("ergo init failed: " + r.Stderr)
	}
	return d
}

// CopyTree copies a directory tree (regular files, dirs, symlinks).
func CopyTree(src, dst string) error {
	return filepath.Walk(src, func(p string, info os.FileInfo, err error) error {
		if err != nil {
			return err
		}
		rel, _ := filepath.Rel(src, p)
		target := filepath.Join(dst, rel)
		switch {
		case info.IsDir():
			return os.MkdirAll(target, 0o755)
		case info.Mode()&os.ModeSymlink != 0:
			l, err := os.Readlink(p)
			if err != nil {
				return err
			}
			return os.Symlink(l, target)
		default:
			data, err := os.ReadFile(p)
			if err != nil {
				return err
			}
			return os.WriteFile(target, data, info.Mode().Perm())
		}
	})
}

// CloneStore copies a project directory to a fresh scratch directory.
func CloneStore(root, tag string) string {
	d := NewScratchDir(tag)
	if err := CopyTree(root, d); err != nil {
		panic(err)
	}
	return d
}

func RemoveAll(paths ...string) {
	for _, p := range paths {
		if p != "" {
			_ = os.RemoveAll(p)
		}
	}
}

// LogPath returns the log file ergo uses in this store (plans.jsonl if present, else
// events.jsonl if present, else plans.jsonl) — the documented choice.
func LogPath(root string) string {
	p := filepath.Join(root, ".ergo", "plans.jsonl")
	if _, err := os.Stat(p); err == nil {
		return p
	}
	o := filepath.Join(root, ".ergo", "events.jsonl")
	if _, err := os.Stat(o); err == nil {
		return o
	}
	return p
}

func ReadLog(root string) []byte {
	b, _ := os.ReadFile(LogPath(root))
	return b
}

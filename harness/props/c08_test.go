package props

import (
	"encoding/json"
	"fmt"
	"os"
	"sort"
	"strings"
	"testing"
	"time"

	"pgregory.net/rapid"
)

var idPool = []string{"AAAAAA", "BBBBBB", "CCCCCC", "DDDDDD", "EEEEEE", "FFFFFF", "GGGGGG", "HHHHHH", "IIIIII", "JJJJJJ", "KKKKKK", "LLLLLL", "MMMMMM", "NNNNNN", "OOOOOO", "PPPPPP"}

var taskConditions = []string{"todo", "todo", "todo", "todo+claimed", "doing", "done", "done", "canceled", "blocked", "blocked+claimed", "error"}

// genSynWorld draws a small two-level world: epics with an epic-level DAG, tasks with
// membership, conditions, a forward-edge DAG, creation times from a small pool (ties),
// pruned items, and tasks that were moved between epics.
func genSynWorld(t *rapid.T) SynWorld {
	ids := rapid.Permutation(idPool).Draw(t, "ids")
	nE := between(t, 0, 4, "epics")
	nT := between(t, 1, 7, "tasks")
	pool := between(t, 1, nE+nT, "time.pool")
	var w SynWorld
	var epics []string
	for i := 0; i < nE; i++ {
		e := SynItem{ID: ids[i], IsEpic: true, State: "todo", Created: uni(t, pool, "e.created"), Title: fmt.Sprintf("epic %d", i)}
		for j := 0; j < i; j++ {
			if pct(t, 40, "e.dep") {
				e.Deps = append(e.Deps, ids[j])
			}
		}
		e.Pruned = pct(t, 8, "e.pruned")
		epics = append(epics, e.ID)
		w.Items = append(w.Items, e)
	}
	for i := 0; i < nT; i++ {
		it := SynItem{ID: ids[nE+i], Created: uni(t, pool, "t.created"), Title: fmt.Sprintf("task %d", i)}
		if len(epics) > 0 && pct(t, 70, "t.inepic") {
			it.Epic = oneOf(t, epics, "t.epic")
		}
		if pct(t, 15, "t.moved") {
			if len(epics) > 0 && pct(t, 70, "t.moved.from.epic") {
				it.FromEpic = oneOf(t, epics, "t.from")
			} else {
				it.FromEpic = "-"
			}
			if it.FromEpic == it.Epic || (it.FromEpic == "-" && it.Epic == "") {
				it.FromEpic = ""
			}
		}
		switch c := oneOf(t, taskConditions, "t.cond"); c {
		case "todo+claimed":
			it.State, it.Claim = "todo", "ghost"
		case "doing", "error":
			it.State, it.Claim = c, "worker"
		case "blocked+claimed":
			it.State, it.Claim = "blocked", "worker"
		default:
			it.State = c
		}
		for j := 0; j < i; j++ {
			if pct(t, 30, "t.dep") {
				it.Deps = append(it.Deps, ids[nE+j])
			}
		}
		it.Pruned = pct(t, 8, "t.pruned")
		w.Items = append(w.Items, it)
	}
	return w
}

// checkWorld judges ergo's reading of a synthesized world (C08).
func checkWorld(s *Synth, w SynWorld) (viol []string, info map[string]int) {
	info = map[string]int{}
	root := WriteStore("c08", s.Render(w))
	defer RemoveAll(root)
	exp := w.Expected()
	bad := func(f string, a ...any) { viol = append(viol, fmt.Sprintf(f, a...)) }
	all, err := ListAll(root)
	if err != nil {
		bad("list --json --all failed: %v", err)
		return
	}
	got := map[string]listItemJSON{}
	for _, li := range all {
		got[li.ID] = li
	}
	nReady := 0
	for id, e := range exp.Items {
		if e.IsEpic {
			continue
		}
		g, ok := got[id]
		if !ok {
			bad("task %s is missing from list --all", id)
			continue
		}
		if g.State != e.State || g.ClaimedBy != e.ClaimedBy || g.EpicID != e.EpicID {
			bad("task %s read as state=%s claim=%q epic=%q, the log says state=%s claim=%q epic=%q", id, g.State, g.ClaimedBy, g.EpicID, e.State, e.ClaimedBy, e.EpicID)
		}
		if g.Ready != e.Ready {
			bad("task %s: ready=%v, the manual's rule gives %v", id, g.Ready, e.Ready)
		}
		if g.Blocked != e.Blocked {
			bad("task %s: blocked=%v, the manual's rule gives %v", id, g.Blocked, e.Blocked)
		}
		if e.Ready {
			nReady++
		}
	}
	for id := range got {
		if exp.Items[id] == nil {
			bad("list --all shows %s which the log has pruned or never created", id)
		}
	}
	info["ready"] = nReady
	// list --ready
	var rl []listItemJSON
	if err := readJSON(root, &rl, "list", "--ready"); err != nil {
		bad("list --json --ready failed: %v", err)
	} else {
		var a, b []string
		for _, li := range rl {
			if li.Kind == "epic" {
				bad("list --ready shows epic %s", li.ID)
			}
			a = append(a, li.ID)
		}
		for id, e := range exp.Items {
			if e.Ready {
				b = append(b, id)
			}
		}
		sort.Strings(a)
		sort.Strings(b)
		if strings.Join(a, ",") != strings.Join(b, ",") {
			bad("list --ready shows %v, the ready tasks are %v", a, b)
		}
	}
	// claim order, globally and within one epic
	scopes := []string{""}
	for _, it := range w.Items {
		if it.IsEpic && !it.Pruned {
			scopes = append(scopes, it.ID)
			break
		}
	}
	for _, scope := range scopes {
		probe := CloneStore(root, "c08claim")
		cur := exp.Clone()
		for n := 0; n < 12; n++ {
			groups := ReadyInOrder(cur, scope)
			args := []string{"--json", "claim", "--agent", "prober"}
			if scope != "" {
				args = append(args, "--epic", scope)
			}
			r := Run(Cmd{Args: args, Dir: probe})
			if !r.OK() {
				bad("claim failed: %s", clip(r.Stderr, 200))
				break
			}
			var m map[string]any
			if StrictJSON(r.Stdout, &m) != nil {
				bad("claim printed something that is not one JSON value")
				break
			}
			if asString(m["status"]) == "no_ready" {
				if len(groups) > 0 {
					bad("claim (epic=%q) says nothing is ready but %v is", scope, groups[0])
				}
				break
			}
			id := asString(m["id"])
			info["claims"]++
			if len(groups) == 0 {
				bad("claim (epic=%q) returned %s although nothing is ready", scope, id)
				break
			}
			if !hasStr(groups[0], id) {
				bad("claim (epic=%q) returned %s, the oldest ready task is %v", scope, id, groups[0])
				break
			}
			if it := cur.Items[id]; it == nil || it.IsEpic {
				bad("claim returned %q which is not a live task", id)
				break
			} else {
				it.State, it.ClaimedBy = "doing", "prober"
			}
			Recompute(cur)
		}
		RemoveAll(probe)
	}
	return
}

func worldInteresting(w SynWorld) bool {
	epicEdge, taskEdge, special := false, false, false
	for _, it := range w.Items {
		if it.IsEpic && len(it.Deps) > 0 {
			epicEdge = true
		}
		if !it.IsEpic && len(it.Deps) > 0 {
			taskEdge = true
		}
		if it.Pruned || it.State == "canceled" || (it.State == "todo" && it.Claim != "") || it.FromEpic != "" {
			special = true
		}
	}
	return (epicEdge && taskEdge) || (special && (epicEdge || taskEdge))
}

// SynCase is the replay format of synthesized-world checks.
type SynCase struct {
	Property   string      `json:"property"`
	Engine     string      `json:"engine"`
	Test       string      `json:"test"`
	World      SynWorld    `json:"world"`
	BaseYear   int         `json:"base_year,omitempty"`
	StepNS     int64       `json:"time_step_ns,omitempty"`
	Violations []Violation `json:"violations,omitempty"`
	Log        string      `json:"log,omitempty"`
}

func TestC08(t *testing.T) {
	if os.Getenv("VERIF_MINIMIZE_IN") != "" {
		return
	}
	s, err := GetSynth()
	if err != nil {
		t.Skipf("INFRA: cannot capture event templates: %v", err)
	}
	if p := os.Getenv("VERIF_REPLAY_IN"); p != "" {
		b, _ := os.ReadFile(p)
		var sc SynCase
		if err := json.Unmarshal(b, &sc); err != nil {
			t.Fatal(err)
		}
		if sc.BaseYear > 0 {
			synBaseYear = sc.BaseYear
		}
		if sc.StepNS > 0 {
			synStepNS = sc.StepNS
		}
		for rep := 0; rep < 8; rep++ { // map-order dependent defects show up within a few repetitions
			if v, _ := checkWorld(s, sc.World); len(v) > 0 {
				t.Fatalf("REPLAY-VIOLATION C08: %v", v)
			}
		}
		return
	}
	if msg := CalibrateSynth(s); msg != "" {
		t.Skipf("INFRA: log synthesis does not reproduce a CLI-built store: %s", msg)
	}
	stats := NewStats("C08", "LOGS/synthesized-worlds", "generated two-level worlds (<= 4 epics with an epic-level DAG, <= 7 tasks with membership, one of 11 conditions incl. the todo-but-claimed residue of a crash, forward task edges, creation times drawn from a small pool so that ties occur, pruned items, tasks moved between epics), written as a log from event lines captured from the CLI at start-up; oracle: ready / blocked flags of list --json --all, the set shown by list --json --ready, and the ids handed out by repeated `claim` and `claim --epic` on copies equal the manual's definition computed from the world description; non-trivial = the world combines an epic edge with a task edge, or an edge with a pruned / canceled / claimed-todo / moved item; distinct = distinct world descriptions")
	defer stats.Flush()
	deadline := budgetDeadline()
	replayPath := ReplayOutPath("C08")
	rapid.Check(t, func(rt *rapid.T) {
		if !deadline.IsZero() && time.Now().After(deadline) {
			stats.Shortfall = "wall-clock guard reached before all requested worlds ran"
			return
		}
		w := genSynWorld(rt)
		synBaseYear = 2026
		if pct(rt, 15, "future") {
			synBaseYear = 2031 // every recorded event is "later" than anything ergo will write now
			stats.Label("world.dated_in_the_future")
		}
		synStepNS = int64(time.Second)
		if pct(rt, 30, "substep") {
			// several creations within one second (stamps printed with and without a fraction)
			// or within one millisecond / microsecond
			synStepNS = oneOf(rt, []int64{250e6, 500e6, 1e5, 1e3, 100, 1}, "substep.ns")
			stats.Label("world.creation_times_within_one_second")
		}
		viol, info := checkWorld(s, w)
		usedYear, usedStep := synBaseYear, synStepNS
		synBaseYear, synStepNS = 2026, int64(time.Second)
		if len(viol) > 0 {
			var vs []Violation
			for _, m := range viol {
				vs = append(vs, Violation{"C08", m})
			}
			WriteReplay(replayPath, SynCase{Property: "C08", Engine: "LOGS", Test: "TestC08", World: w, BaseYear: usedYear, StepNS: usedStep, Violations: vs, Log: s.Render(w)})
			rt.Fatalf("C08 violated: %v", viol)
		}
		stats.Eval()
		stats.LabelN("ready_tasks", info["ready"])
		stats.LabelN("claims_checked", info["claims"])
		if worldInteresting(w) {
			b, _ := json.Marshal(w)
			stats.NonTrivial(string(b))
			stats.Label("world.two_level_or_special")
		}
		for _, it := range w.Items {
			if it.IsEpic && len(it.Deps) >= 2 {
				stats.Label("world.epic_with_2plus_epic_deps")
				break
			}
		}
		stats.Sample(len(w.Items), w)
	})
}

package props

import (
	"encoding/json"
	"fmt"
	"os"
	"path/filepath"
	"strings"
	"testing"
	"time"
	"unicode/utf8"

	"pgregory.net/rapid"
)

// C17: titles and bodies come back exactly as they went in.

var textClasses = map[string][]string{
	"ascii":      {"a", "Z", "0", " ", "word", "-", "_", ".", "plain text"},
	"quotes":     {`"`, `\`, `'`, "`", `\"`, `\\`, `\n`, `A`, `\u0041`, `\u2028`, `\u2029`, `C:\u2029x`, `\u003c`, `\ud83d\ude00`, `\x41`, `&#x41;`, `%41`, "$(x)", "%s", "{{x}}"},
	"controls":   {"\n", "\r\n", "\t", "\x00", "\x01", "\x1b[31m", "\x7f", "\u0085", "\u009f", "\x0b", "\x0c"},
	"html":       {"<", ">", "&", "<script>", "&amp;", "</b>"},
	"separators": {"\u2028", "\u2029", "\ufeff", "\u200b", "\u200d", "\u00a0", "\u3000", "\u2003"},
	"nonchars":   {"\ufffe", "\uffff", "\ufdd0", "\U0001fffe", "\ufffd"},
	"bmp":        {"é", "ß", "Ж", "中文", "日本語", "한글", "ﷺ", "Ω", "ｆｕｌｌ"},
	"astral":     {"🚀", "😀", "𝒳", "🏳️\u200d🌈", "👨\u200d👩\u200d👧", "\U00010348", "\U0010ffff"},
	"combining":  {"e\u0301", "a\u0308\u0304", "\u0301", "\u0915\u094d\u0937", "\u0e01\u0e47"},
	"rtl":        {"\u05e9\u05dc\u05d5\u05dd", "\u0645\u0631\u062d\u0628\u0627", "\u202eabc\u202c", "\u200f"},
}

var textClassNames = []string{"ascii", "quotes", "controls", "html", "separators", "nonchars", "bmp", "astral", "combining", "rtl"}

var edgeSpaces = []string{" ", "\t", "\n", "\r\n", "\u00a0", "\u3000", "\u2003", "\u0085", "  \n "}

// genText assembles a valid Unicode string from the classes. size selects the length
// regime; the result is never blank.
func genText(t *rapid.T, label string, allowNUL bool, maxLen int) (string, []string) {
	var b strings.Builder
	used := map[string]bool{}
	n := between(t, 1, 8, label+".pieces")
	for i := 0; i < n; i++ {
		c := oneOf(t, textClassNames, label+".class")
		p := oneOf(t, textClasses[c], label+".piece")
		if !allowNUL && strings.Contains(p, "\x00") {
			p = "~"
		}
		used[c] = true
		b.WriteString(p)
	}
	s := b.String()
	if strings.TrimSpace(s) == "" {
		s += "x"
	}
	if pct(t, 25, label+".edges") {
		s = oneOf(t, edgeSpaces, label+".lead") + s + oneOf(t, edgeSpaces, label+".trail")
		used["edge-whitespace"] = true
	}
	if !allowNUL {
		s = strings.ReplaceAll(s, "\x00", "~")
	}
	if maxLen > 0 && pct(t, 12, label+".long") {
		target := oneOf(t, []int{4095, 4096, 4097, 65535, 65536, 65537, 100000, 700000, 1<<20 + 17, 2500000}, label+".len")
		if target > maxLen {
			target = maxLen
		}
		var lb strings.Builder
		for lb.Len() < target {
			lb.WriteString(s)
			lb.WriteString(" lorem ipsum ")
		}
		s = lb.String()
		// cut on a rune boundary
		cut := target
		if cut > len(s) {
			cut = len(s)
		}
		for cut > 0 && cut < len(s) && !utf8.RuneStart(s[cut]) {
			cut--
		}
		s = s[:cut] + "."
		used[fmt.Sprintf("long>=%d", target)] = true
	}
	var classes []string
	for c := range used {
		classes = append(classes, c)
	}
	return s, classes
}

// variantOf returns a text closely related to s (the kind of pair a "no-op" shortcut
// would confuse).
func variantOf(t *rapid.T, s, label string) string {
	switch uni(t, 8, label+".variant") {
	case 0:
		return s + "\n"
	case 1:
		return strings.TrimRight(s, "\r\n") + "x"[:0] + func() string {
			if strings.TrimRight(s, "\r\n") == s {
				return "\r\n"
			}
			return ""
		}()
	case 2:
		return s + " "
	case 3:
		return " " + s
	case 4:
		return strings.ToUpper(s) + func() string {
			if strings.ToUpper(s) == s {
				return "!"
			}
			return ""
		}()
	case 5:
		return s + "\u200b"
	case 6:
		return strings.ReplaceAll(s, "\n", "\r\n") + "\t"
	default:
		return s + s
	}
}

// three JSON encodings of the same string
func jsonString(s, style string) string {
	switch style {
	case "escaped-unicode":
		var b strings.Builder
		b.WriteByte('"')
		for _, r := range s {
			switch {
			case r == '"' || r == '\\':
				b.WriteByte('\\')
				b.WriteRune(r)
			case r < 0x20 || r > 0x7e:
				if r > 0xffff {
					r -= 0x10000
					fmt.Fprintf(&b, `\u%04x\u%04x`, 0xd800+(r>>10), 0xdc00+(r&0x3ff))
				} else {
					fmt.Fprintf(&b, `\u%04x`, r)
				}
			default:
				b.WriteRune(r)
			}
		}
		b.WriteByte('"')
		return b.String()
	case "raw-utf8":
		var b strings.Builder
		b.WriteByte('"')
		for _, r := range s {
			switch {
			case r == '"' || r == '\\':
				b.WriteByte('\\')
				b.WriteRune(r)
			case r < 0x20:
				fmt.Fprintf(&b, `\u%04x`, r)
			default:
				b.WriteRune(r)
			}
		}
		b.WriteByte('"')
		return b.String()
	default: // Go's default: HTML-escaped, U+2028/9 escaped
		bb, _ := json.Marshal(s)
		return string(bb)
	}
}

type textStep struct {
	Kind    string  `json:"kind"`    // create_task create_epic plan set compact
	Channel string  `json:"channel"` // json:<style> | flags | bodystdin
	Title   *string `json:"title,omitempty"`
	Body    *string `json:"body,omitempty"`
	State   string  `json:"state,omitempty"`
	Claim   string  `json:"claim,omitempty"`
	// plan only
	TaskTitles []string `json:"task_titles,omitempty"`
	TaskBodies []string `json:"task_bodies,omitempty"`
}

// TextCase is the replay format.
type TextCase struct {
	Property   string      `json:"property"`
	Engine     string      `json:"engine"`
	Test       string      `json:"test"`
	Steps      []textStep  `json:"steps"`
	Violations []Violation `json:"violations,omitempty"`
}

func objJSON(fields [][2]string) string {
	var parts []string
	for _, f := range fields {
		parts = append(parts, fmt.Sprintf("%q:%s", f[0], f[1]))
	}
	return "{" + strings.Join(parts, ",") + "}"
}

type textWorld struct {
	root    string
	expects map[string][2]*string // id -> (title, body) expected; nil = unknown
	trimOK  map[string]bool       // title may have been trimmed
	target  string
}

func (tw *textWorld) verify(when string) []string {
	var out []string
	for id, e := range tw.expects {
		it, _, err := ShowItem(tw.root, id)
		if err != nil {
			out = append(out, fmt.Sprintf("%s: show %s failed: %v", when, id, err))
			continue
		}
		if e[0] != nil {
			ok := it.Title == *e[0] || (tw.trimOK[id] && it.Title == strings.TrimSpace(*e[0]))
			if !ok {
				out = append(out, fmt.Sprintf("%s: title of %s came back as %q, supplied %q", when, id, clip(it.Title, 160), clip(*e[0], 160)))
			}
		}
		if e[1] != nil && it.Body != *e[1] {
			out = append(out, fmt.Sprintf("%s: body of %s came back different (len %d vs %d): %s", when, id, len(it.Body), len(*e[1]), diffHint(it.Body, *e[1])))
		}
	}
	return out
}

func (tw *textWorld) apply(st textStep) []string {
	var c Cmd
	c.Dir = tw.root
	style := strings.TrimPrefix(st.Channel, "json:")
	switch st.Kind {
	case "compact":
		r := Run(Cmd{Args: []string{"--json", "compact"}, Dir: tw.root})
		if !r.OK() {
			return []string{"compact failed: " + clip(r.Stderr, 200)}
		}
		return nil
	case "redate":
		// the command just run gets time stamps a day ahead: it ran on a host whose clock is
		// fast and its lines came over by git. Texts are not a matter of time.
		redateLastCommand(tw.root, 26*time.Hour)
		return nil
	case "other_plan":
		// an unrelated plan: it rewrites the whole log and must leave every text alone
		r := Run(Cmd{Args: []string{"--json", "plan"}, Mode: StdinPipe, Stdin: `{"title":"unrelated plan","tasks":[{"title":"unrelated a"},{"title":"unrelated b","after":["unrelated a"]}]}`, Dir: tw.root})
		if !r.OK() {
			return []string{"unrelated plan failed: " + clip(r.Stderr, 200)}
		}
		return nil
	case "plan":
		var tasks []string
		for i, tt := range st.TaskTitles {
			f := [][2]string{{"title", jsonString(tt, style)}}
			if i < len(st.TaskBodies) && st.TaskBodies[i] != "" {
				f = append(f, [2]string{"body", jsonString(st.TaskBodies[i], style)})
			}
			tasks = append(tasks, objJSON(f))
		}
		f := [][2]string{{"title", jsonString(*st.Title, style)}}
		if st.Body != nil {
			f = append(f, [2]string{"body", jsonString(*st.Body, style)})
		}
		f = append(f, [2]string{"tasks", "[" + strings.Join(tasks, ",") + "]"})
		c.Args, c.Mode, c.Stdin = []string{"--json", "plan"}, StdinPipe, objJSON(f)
		r := Run(c)
		if !r.OK() {
			return []string{"plan with valid text was rejected: " + clip(r.Stderr, 300)}
		}
		var m struct {
			Epic  struct{ ID string }   `json:"epic"`
			Tasks []struct{ ID string } `json:"tasks"`
		}
		if err := StrictJSON(r.Stdout, &m); err != nil || len(m.Tasks) != len(st.TaskTitles) {
			return []string{"plan reply unusable"}
		}
		tw.expects[m.Epic.ID] = [2]*string{st.Title, st.Body}
		if st.Body == nil {
			tw.expects[m.Epic.ID] = [2]*string{st.Title, sp("")}
		}
		for i, x := range m.Tasks {
			tt := st.TaskTitles[i]
			b := ""
			if i < len(st.TaskBodies) {
				b = st.TaskBodies[i]
			}
			tw.expects[x.ID] = [2]*string{&tt, &b}
		}
		tw.target = m.Tasks[0].ID
		return nil
	}
	isCreate := strings.HasPrefix(st.Kind, "create")
	if !isCreate && tw.target == "" {
		return nil // the create was (legitimately) refused
	}
	kindWord := "task"
	if st.Kind == "create_epic" {
		kindWord = "epic"
	}
	var args []string
	if st.Claim != "" || st.State == "doing" {
		args = append(args, "--agent", "writer")
	}
	args = append(args, "--json")
	if isCreate {
		args = append(args, "new", kindWord)
	} else {
		args = append(args, "set", tw.target)
	}
	switch {
	case strings.HasPrefix(st.Channel, "json:"):
		var f [][2]string
		if st.Title != nil {
			f = append(f, [2]string{"title", jsonString(*st.Title, style)})
		}
		if st.Body != nil {
			f = append(f, [2]string{"body", jsonString(*st.Body, style)})
		}
		if st.State != "" {
			f = append(f, [2]string{"state", jsonString(st.State, "")})
		}
		if st.Claim != "" {
			f = append(f, [2]string{"claim", jsonString(st.Claim, "")})
		}
		c.Mode, c.Stdin = StdinPipe, objJSON(f)
	case st.Channel == "flags":
		if st.Title != nil {
			args = append(args, "--title", *st.Title)
		}
		if st.Body != nil {
			args = append(args, "--body", *st.Body)
		}
		if st.State != "" {
			args = append(args, "--state", st.State)
		}
		if st.Claim != "" {
			args = append(args, "--claim", st.Claim)
		}
		c.Mode = StdinDevNull
	default: // bodystdin
		args = append(args, "--body-stdin")
		if st.Title != nil {
			args = append(args, "--title", *st.Title)
		}
		if st.State != "" {
			args = append(args, "--state", st.State)
		}
		if st.Claim != "" {
			args = append(args, "--claim", st.Claim)
		}
		c.Mode = StdinPipe
		if st.Body != nil {
			c.Stdin = *st.Body
		}
	}
	mayReject := st.Title != nil && strings.TrimSpace(*st.Title) == ""
	c.Args = args
	for _, a := range args {
		if len(a) > 120000 {
			return nil // beyond the per-argument limit of execve: cannot be supplied by flag at all
		}
	}
	r := Run(c)
	if strings.Contains(r.Stderr, "[harness] exec error") {
		return nil
	}
	if !r.OK() && mayReject {
		return nil // a title of nothing but white space may be refused; if it is taken it must round-trip
	}
	if !r.OK() {
		return []string{fmt.Sprintf("`%s` with valid text was rejected: %s", strings.Join(clipArgs(args), " "), clip(r.Stderr, 300))}
	}
	if isCreate {
		var m struct{ ID string }
		if err := StrictJSON(r.Stdout, &m); err != nil || m.ID == "" {
			return []string{"create reply unusable: " + clip(r.Stdout, 200)}
		}
		tw.target = m.ID
		body := st.Body
		if body == nil {
			body = sp("")
		}
		tw.expects[m.ID] = [2]*string{st.Title, body}
		tw.trimOK[m.ID] = !strings.HasPrefix(st.Channel, "json:")
		return nil
	}
	e := tw.expects[tw.target]
	if st.Title != nil {
		e[0] = st.Title
		tw.trimOK[tw.target] = true
	}
	if st.Body != nil {
		e[1] = st.Body
	}
	tw.expects[tw.target] = e
	return nil
}

func clipArgs(a []string) []string {
	out := make([]string, len(a))
	for i, x := range a {
		out[i] = clip(x, 60)
	}
	return out
}

func runTextCase(steps []textStep) []string {
	tw := &textWorld{root: NewStore("c17"), expects: map[string][2]*string{}, trimOK: map[string]bool{}}
	defer RemoveAll(tw.root)
	// files a text might seem to point at
	_ = os.MkdirAll(filepath.Join(tw.root, "src"), 0o755)
	_ = os.WriteFile(filepath.Join(tw.root, "notes.md"), []byte("contents of notes.md\n"), 0o644)
	_ = os.WriteFile(filepath.Join(tw.root, "src", "main.go"), []byte("package main\n"), 0o644)
	for i, st := range steps {
		if v := tw.apply(st); len(v) > 0 {
			return v
		}
		if v := tw.verify(fmt.Sprintf("after step %d (%s via %s)", i+1, st.Kind, st.Channel)); len(v) > 0 {
			return v
		}
	}
	return nil
}

func TestC17(t *testing.T) {
	if os.Getenv("VERIF_MINIMIZE_IN") != "" {
		return
	}
	if p := os.Getenv("VERIF_REPLAY_IN"); p != "" {
		b, _ := os.ReadFile(p)
		var tc TextCase
		if err := json.Unmarshal(b, &tc); err != nil {
			t.Fatal(err)
		}
		if v := runTextCase(tc.Steps); len(v) > 0 {
			t.Fatalf("REPLAY-VIOLATION C17: %v", v)
		}
		return
	}
	stats := NewStats("C17", "TEXT/round-trip", "valid Unicode strings assembled from ten classes (ASCII, quotes / backslashes / escape look-alikes, C0 / C1 controls incl. NUL, HTML-significant, U+2028/9 / BOM / zero-width / no-break spaces, non-characters, BMP scripts, astral, combining, RTL and bidi controls), optionally padded with Unicode white space, lengths from 1 to 2.5 MB incl. 4 KiB, 64 KiB and 1 MiB boundaries; supplied as title / body through JSON stdin in three encodings (raw UTF-8, \\u escapes with surrogate pairs, HTML-escaped), --body-stdin, and flags; at creation (task with optional state / claim, epic), inside a plan, and by set - where the new text is either fresh or a close variant of the current one (trailing newline added / removed, padding, case, zero-width suffix) -, then compact; oracle: show --json returns the supplied text code point for code point after every step (titles given by flag or set may equal the input with surrounding white space trimmed); non-trivial = the text has a non-alphanumeric-ASCII character or is longer than 64 KiB; distinct = distinct (step kinds, channels, text classes)")
	defer stats.Flush()
	deadline := budgetDeadline()
	replayPath := ReplayOutPath("C17")
	rapid.Check(t, func(rt *rapid.T) {
		if !deadline.IsZero() && time.Now().After(deadline) {
			stats.Shortfall = "wall-clock guard reached before all requested cases ran"
			return
		}
		var steps []textStep
		classSet := map[string]bool{}
		text := func(label string, channel string, isTitle bool) *string {
			max := 3000000
			if channel == "flags" || (isTitle && channel == "bodystdin") {
				max = 100000 // argv limit per argument is 128 KiB
			}
			if pct(rt, 4, label+".reference") {
				// text that looks like a reference to something else: it is text
				classSet["looks-like-a-file-or-shell-reference"] = true
				r := oneOf(rt, []string{"@notes.md", "@src/main.go", "@.ergo/plans.jsonl", "$(cat notes.md)", "`cat notes.md`", "file://notes.md", "<notes.md", "~/notes.md", "${HOME}", "%s %d %[1]v", "{{.Title}}"}, label+".reference.which")
				return &r
			}
			s, cl := genText(rt, label, channel != "flags" && !(isTitle && channel == "bodystdin"), max)
			for _, c := range cl {
				classSet[c] = true
			}
			return &s
		}
		channel := func(label string) string {
			return oneOf(rt, []string{"json:raw-utf8", "json:escaped-unicode", "json:html-escaped", "flags", "bodystdin"}, label)
		}
		var curTitle, curBody *string
		switch oneOf(rt, []string{"create_task", "create_task", "create_epic", "plan"}, "first") {
		case "plan":
			st := textStep{Kind: "plan", Channel: oneOf(rt, []string{"json:raw-utf8", "json:escaped-unicode", "json:html-escaped"}, "plan.channel")}
			st.Title = text("plan.title", st.Channel, true)
			if pct(rt, 60, "plan.body") {
				st.Body = text("plan.body", st.Channel, false)
			}
			n := between(rt, 1, 4, "plan.n")
			seen := map[string]bool{}
			for i := 0; i < n; i++ {
				tt := text(fmt.Sprintf("plan.t%d", i), st.Channel, true)
				for seen[*tt] {
					*tt += "'"
				}
				seen[*tt] = true
				st.TaskTitles = append(st.TaskTitles, *tt)
				if pct(rt, 60, "plan.tb") {
					st.TaskBodies = append(st.TaskBodies, *text(fmt.Sprintf("plan.b%d", i), st.Channel, false))
				} else {
					st.TaskBodies = append(st.TaskBodies, "")
				}
			}
			steps = append(steps, st)
			curTitle, curBody = &st.TaskTitles[0], &st.TaskBodies[0]
		case "create_epic":
			st := textStep{Kind: "create_epic", Channel: channel("create.channel")}
			st.Title = text("create.title", st.Channel, true)
			if pct(rt, 70, "create.body") || st.Channel == "bodystdin" {
				st.Body = text("create.body", st.Channel, false)
			}
			steps = append(steps, st)
			curTitle, curBody = st.Title, st.Body
		default:
			st := textStep{Kind: "create_task", Channel: channel("create.channel")}
			st.Title = text("create.title", st.Channel, true)
			if strings.HasPrefix(st.Channel, "json:") && pct(rt, 5, "blankish") {
				// nothing but (non-ASCII) white space: may be refused as blank; if accepted it is
				// a title like any other
				st.Title = sp(oneOf(rt, []string{"\u00a0", "\u3000", "\u2028", "\f", "\v\u00a0", "\u2003\u2003"}, "blankish.which"))
				classSet["whitespace-only-title"] = true
			}
			if pct(rt, 70, "create.body") || st.Channel == "bodystdin" {
				st.Body = text("create.body", st.Channel, false)
			}
			switch uni(rt, 5, "create.extra") {
			case 0:
				st.Claim = "writer"
			case 1:
				st.State = "blocked"
			case 2:
				st.State, st.Claim = "doing", "writer"
			}
			steps = append(steps, st)
			curTitle, curBody = st.Title, st.Body
		}
		for n := between(rt, 0, 3, "sets"); n > 0; n-- {
			st := textStep{Kind: "set", Channel: channel("set.channel")}
			related := pct(rt, 45, "set.related")
			if pct(rt, 50, "set.title") {
				if related && curTitle != nil && len(*curTitle) < 2000 {
					v := variantOf(rt, *curTitle, "set.title")
					if st.Channel == "flags" || st.Channel == "bodystdin" {
						v = strings.ReplaceAll(v, "\x00", "~")
					}
					st.Title = &v
				} else {
					st.Title = text("set.title", st.Channel, true)
				}
			}
			if st.Title == nil || pct(rt, 60, "set.body") || st.Channel == "bodystdin" {
				if related && curBody != nil && *curBody != "" && len(*curBody) < 200000 {
					v := variantOf(rt, *curBody, "set.body")
					if st.Channel == "flags" {
						v = strings.ReplaceAll(v, "\x00", "~")
					}
					st.Body = &v
					classSet["variant-of-current"] = true
				} else {
					st.Body = text("set.body", st.Channel, false)
				}
			}
			if st.Title != nil {
				curTitle = st.Title
			}
			if st.Body != nil {
				curBody = st.Body
			}
			if n > 1 && pct(rt, 25, "redate") {
				steps = append(steps, textStep{Kind: "redate"})
				classSet["edit-after-a-future-dated-edit"] = true
			}
			steps = append(steps, st)
		}
		if pct(rt, 30, "otherplan") {
			steps = append(steps, textStep{Kind: "other_plan"})
		}
		steps = append(steps, textStep{Kind: "compact"})
		viol := runTextCase(steps)
		if len(viol) > 0 {
			var vs []Violation
			for _, m := range viol {
				vs = append(vs, Violation{"C17", m})
			}
			WriteReplay(replayPath, TextCase{Property: "C17", Engine: "TEXT", Test: "TestC17", Steps: steps, Violations: vs})
			rt.Fatalf("C17 violated: %v", viol)
		}
		stats.Eval()
		var sig []string
		for _, st := range steps {
			sig = append(sig, st.Kind+"/"+st.Channel)
			stats.Label("step." + st.Kind)
			if st.Kind != "compact" {
				stats.Label("channel." + st.Channel)
			}
		}
		for c := range classSet {
			stats.Label("class." + c)
		}
		stats.NonTrivial(strings.Join(sig, ";") + fmt.Sprint(keys(classSet)))
		var shown []any
		for _, st := range steps {
			m := map[string]any{"kind": st.Kind, "channel": st.Channel}
			if st.Title != nil {
				m["title"] = clip(*st.Title, 80)
			}
			if st.Body != nil {
				m["body"] = clip(*st.Body, 80)
				m["body_bytes"] = len(*st.Body)
			}
			shown = append(shown, m)
		}
		stats.Sample(len(steps), map[string]any{"steps": shown})
	})
}

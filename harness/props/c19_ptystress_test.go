package props

import (
	"fmt"
	"os"
	"strconv"
	"strings"
	"testing"
	"time"
)

// TestC19PtyStress is a diagnostic for the observation channel of C19, not a property
// check: with STRESS_N=n it renders one fixed store n times on a pseudo terminal and
// demands the same bytes every time (run many copies in parallel to load the machine).
func TestC19PtyStress(t *testing.T) {
	n, _ := strconv.Atoi(os.Getenv("STRESS_N"))
	if n == 0 {
		t.Skip()
	}
	root := NewStore("ptystress")
	defer RemoveAll(root)
	for i := 0; i < 6; i++ {
		r := Run(Cmd{Args: []string{"--json", "new", "task"}, Dir: root, Mode: StdinPipe, Stdin: fmt.Sprintf(`{"title":"task number %d 任务"}`, i)})
		if !r.OK() {
			t.Fatal(r.Stderr)
		}
	}
	refR, err := runOnPty(root, 72, "list")
	ref := refR.Out
	if err != nil {
		t.Fatal(err)
	}
	bad := 0
	for i := 0; i < n; i++ {
		t0 := time.Now()
		rr, err := runOnPty(root, 72, "list")
		out, code := rr.Out, rr.Code
		d := time.Since(t0)
		if err != nil || code != 0 || out != ref || d > 2*time.Second {
			bad++
			t.Logf("ANOMALY iter=%d err=%v code=%d dur=%v len=%d reflen=%d out=%q", i, err, code, d, len(out), len(ref), clip(out, 300))
		}
	}
	if bad > 0 {
		t.Fatalf("%d anomalies; ref=%q", bad, clip(strings.TrimSpace(ref), 200))
	}
}

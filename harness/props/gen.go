package props

import (
	"fmt"
	"sort"
	"strings"

	"pgregory.net/rapid"
)

// Profile steers the history generator towards the part of the command space a
// property is about. All oracles run under every profile.
type Profile struct {
	Name       string
	Weights    map[string]int // op kind -> weight
	BadRef     int            // percent chance that a reference is drawn from a wrong role
	Spoil      int            // percent chance that an op gets one extra failing ingredient
	Results    int            // percent chance that set/new carries a result attachment
	HoldLock   int            // percent chance that a mutating op runs while the harness holds the lock
	MaxSteps   int
	MinSteps   int
	EpicPct    int      // percent of new/set ops that carry an epic field (default 30)
	SeqEpicPct int      // percent of sequence ops over epics (default 30)
	StatePool  []string // states to draw from (default: all, doing/done doubled)
	StatePct   int      // percent of new/set ops with a state field (default 45)
	ClaimPct   int      // percent with a claim field (default 30)
	MixedPct   int      // percent of sequence ops aimed at the task/epic two-level interaction
	ChopPct    int      // percent of steps that strip the final newline off the log (a complete last event, cut one byte short)
	RedatePct  int      // percent of steps that re-date the last command's events into the future (it ran on a host whose clock is ahead; the log came over by git)
	DebrisPct  int      // percent of steps that leave crash debris that is not state: a stale temp file of a rewrite, an unparsable fragment after the last newline
}

func (p Profile) epicPct() int {
	if p.EpicPct > 0 {
		return p.EpicPct
	}
	return 30
}

func (p Profile) seqEpicPct() int {
	if p.SeqEpicPct > 0 {
		return p.SeqEpicPct
	}
	return 30
}

func (p Profile) statePct() int {
	if p.StatePct > 0 {
		return p.StatePct
	}
	return 45
}

func (p Profile) claimPct() int {
	if p.ClaimPct != 0 {
		return p.ClaimPct
	}
	return 30
}

var baseWeights = map[string]int{
	"new_task": 18, "new_epic": 6, "set": 26, "claim": 7, "claim_id": 6, "sequence": 10,
	"sequence_rm": 3, "plan": 3, "prune": 2, "prune_yes": 4, "compact": 4, "init": 1,
}

func weightsWith(over map[string]int) map[string]int {
	w := map[string]int{}
	for k, v := range baseWeights {
		w[k] = v
	}
	for k, v := range over {
		w[k] = v
	}
	return w
}

// uni draws an integer in [0, n) with a (nearly) uniform distribution. rapid's own integer
// generators are deliberately biased towards small values, which is wrong for choosing
// among alternatives; single bits are uniform, and an all-zero draw (what shrinking
// converges to) selects alternative 0.
func uni(t *rapid.T, n int, label string) int {
	if n <= 1 {
		return 0
	}
	bits := 4
	for m := n; m > 0; m >>= 1 {
		bits++
	}
	bs := rapid.SliceOfN(rapid.Bool(), bits, bits).Draw(t, label)
	v := 0
	for _, b := range bs {
		v <<= 1
		if b {
			v |= 1
		}
	}
	return v % n
}

func pct(t *rapid.T, p int, label string) bool {
	if p <= 0 {
		return false
	}
	if p >= 100 {
		return true
	}
	return uni(t, 100, label) < p
}

func oneOf[T any](t *rapid.T, xs []T, label string) T {
	return xs[uni(t, len(xs), label)]
}

// between draws uniformly from [lo, hi].
func between(t *rapid.T, lo, hi int, label string) int {
	return lo + uni(t, hi-lo+1, label)
}

func pickWeighted(t *rapid.T, w map[string]int, label string) string {
	ks := make([]string, 0, len(w))
	total := 0
	for k, v := range w {
		if v > 0 {
			ks = append(ks, k)
			total += v
		}
	}
	sort.Strings(ks)
	n := uni(t, total, label)
	for _, k := range ks {
		if n < w[k] {
			return k
		}
		n -= w[k]
	}
	return ks[len(ks)-1]
}

var agents = []string{"a1", "a2", "agent-3@host"}

// refGen draws references by role.
type refGen struct {
	t   *rapid.T
	w   *World
	pre *Snapshot
}

func (g refGen) ids(filter func(*Item) bool) []string {
	var out []string
	for _, id := range g.pre.SortedIDs() {
		if filter(g.pre.Items[id]) {
			out = append(out, id)
		}
	}
	return out
}

func (g refGen) ref(id string) Ref {
	if r, ok := g.w.RefOf(id); ok {
		return r
	}
	return Lit(id)
}

func (g refGen) pruned() []string {
	var out []string
	for id := range g.w.Pruned {
		out = append(out, id)
	}
	sort.Strings(out)
	return out
}

// pick returns a ref of the wanted role ("task", "epic", "any"), or with probability
// bad% one of another role (other kind, pruned, unknown).
func (g refGen) pick(want string, bad int, label string) Ref {
	tasks := g.ids(func(it *Item) bool { return !it.IsEpic })
	epics := g.ids(func(it *Item) bool { return it.IsEpic })
	pr := g.pruned()
	var good []string
	var wrong [][]string
	switch want {
	case "task":
		good = tasks
		wrong = [][]string{epics, pr, {"000000"}}
		if len(tasks) > 0 {
			// other spellings of a live id name nothing (ids are exact, upper-case strings)
			x := tasks[len(tasks)-1]
			wrong = append(wrong, []string{strings.ToLower(x), " " + x, x + " "})
		}
	case "epic":
		good = epics
		wrong = [][]string{tasks, pr, {"000000"}}
		if len(epics) > 0 {
			// other spellings of a live epic's id name nothing
			e := epics[0]
			wrong = append(wrong, []string{strings.ToLower(e), e + " ", " " + e})
		}
	default:
		good = append(append([]string{}, tasks...), epics...)
		wrong = [][]string{pr, {"000000"}}
	}
	if len(good) == 0 || pct(g.t, bad, label+".bad") {
		var pools [][]string
		for _, p := range wrong {
			if len(p) > 0 {
				pools = append(pools, p)
			}
		}
		pool := pools[uni(g.t, len(pools), label+".role")]
		return g.ref(pool[uni(g.t, len(pool), label+".which")])
	}
	return g.ref(good[uni(g.t, len(good), label)])
}

var titleAlphabets = []string{"plain", "padded", "unicode", "quotes"}

func genTitle(t *rapid.T, w *World, label string) string {
	base := w.UniqueTitle("t")
	switch oneOf(t, titleAlphabets, label+".style") {
	case "padded":
		return " " + base + "  "
	case "unicode":
		return base + " héllo 世界 🚀"
	case "quotes":
		return base + ` "q" \ <b>&amp; 'x'`
	}
	return base
}

func genBody(t *rapid.T, label string) string {
	return oneOf(t, []string{
		"body", "line one\nline two\n", "  indented\n\ttabbed  ", "# heading\ntext", "ünï cödé 🎯", "{\"json\":true}", "x",
	}, label)
}

func genState(t *rapid.T, label string) string {
	return oneOf(t, []string{"todo", "doing", "doing", "done", "done", "blocked", "canceled", "error"}, label)
}

// genFields fills the task fields of a new/set op.
func genFields(t *rapid.T, g refGen, prof Profile, op *Op, isNew, isEpic bool) {
	json := op.Mode == "json"
	if isNew || pct(t, 25, "f.title") {
		op.Title = sp(genTitle(t, g.w, "title"))
	}
	if pct(t, 35, "f.body") || (op.Mode == "bodystdin" && !isNew) {
		op.Body = sp(genBody(t, "body"))
	}
	if !isNew && op.Target != nil {
		// now and then exactly the text the item already has: a request that changes nothing
		// is still a request (it counts as the item's latest change)
		if it := g.pre.Items[g.w.Resolve(*op.Target)]; it != nil {
			if op.Title != nil && pct(t, 10, "f.title.same") {
				op.Title = sp(it.Title)
			}
			if op.Body != nil && it.Body != "" && len(it.Body) < 60000 && pct(t, 10, "f.body.same") { // (an argument of more than 128 KiB cannot be passed)
				op.Body = sp(it.Body)
			}
		}
	}
	if isEpic {
		return
	}
	if pct(t, prof.epicPct(), "f.epic") {
		if json && pct(t, 20, "f.epic.empty") {
			r := Lit("")
			op.Epic = &r
		} else {
			r := g.pick("epic", prof.BadRef, "f.epic.ref")
			if !(r.Op < 0 && r.Lit == "" && !json) {
				op.Epic = &r
			}
		}
	}
	if pct(t, prof.statePct(), "f.state") {
		if len(prof.StatePool) > 0 {
			op.State = sp(oneOf(t, prof.StatePool, "state"))
		} else {
			op.State = sp(genState(t, "state"))
		}
	}
	if pct(t, prof.claimPct(), "f.claim") {
		if json && pct(t, 20, "f.claim.empty") {
			op.Claim = sp("")
		} else {
			op.Claim = sp(oneOf(t, agents, "claim"))
			if json && pct(t, 6, "f.claim.odd") {
				op.Claim = sp(oneOf(t, []string{" ", "\t", "  a1  ", "\u00a0"}, "claim.odd"))
			}
		}
	}
	if pct(t, 45, "f.agent") {
		op.Agent = oneOf(t, agents, "agent")
	}
	if (json || !isNew) && pct(t, prof.Results, "f.result") {
		genResult(t, g, op)
	}
}

// genResult attaches a result with a mostly valid path.
func genResult(t *rapid.T, g refGen, op *Op) {
	// a quarter of the time: attach again exactly what the target already carries (same
	// path, same summary, file untouched) - identical attachments must all be kept
	if op.Target != nil {
		if it := g.pre.Items[g.w.Resolve(*op.Target)]; it != nil && len(it.Results) > 0 && pct(t, 25, "res.repeat") {
			prev := it.Results[uni(t, len(it.Results), "res.which")]
			op.ResultPath, op.ResultSummary = sp(prev.Path), sp(prev.Summary)
			return
		}
	}
	name := fmt.Sprintf("out/r%d.txt", between(t, 0, 5, "res.file"))
	if pct(t, 12, "res.oddname") {
		name = oneOf(t, []string{"out/run%41.log", "out/coverage-100%.md", "out/a b#c?.txt", "out/ünï/r.txt", "out/%zz.txt"}, "res.odd")
	}
	content := oneOf(t, []string{"alpha", "beta\n", "", "γάμμα"}, "res.content")
	fs := FileSpec{Path: name, Content: content}
	if pct(t, 5, "res.bigfile") {
		// larger than any buffer a hasher might stream through, and not a whole number of them
		fs.Fill = oneOf(t, []int{1<<20 + 1, 1 << 20, 2<<20 + 1<<19 + 17, 3 << 20, 65537, 4<<20 - 1}, "res.bigsize")
	}
	op.Files = append(op.Files, fs)
	path := name
	switch between(t, 0, 9, "res.shape") {
	case 0:
		path = "./" + name
	case 1:
		path = "out/../" + name
	case 2:
		path = "../escape.txt"
	case 3:
		path = ".ergo/plans.jsonl"
	case 4:
		path = "out/missing.txt"
	case 5:
		path = g.w.Root + "/" + name
	}
	if pct(t, 6, "res.cwd") {
		// started somewhere below the root, naming a file that exists only relative to that
		// directory: relative result paths are relative to the project root, so there is no
		// such file
		if pct(t, 50, "res.cwd.ergo") {
			op.Cwd, path = ".ergo", "plans.jsonl"
		} else {
			only := fmt.Sprintf("only-here-%d.txt", between(t, 0, 3, "res.cwd.n"))
			op.Files = append(op.Files, FileSpec{Path: "out/" + only, Content: "seen from out/ only"})
			op.Cwd, path = "out", only
		}
	}
	op.ResultPath = sp(path)
	op.ResultSummary = sp(oneOf(t, []string{"done it", "  trimmed  ", "résumé ✓", "two\nlines", ""}, "res.summary"))
	if op.Mode == "flags" || op.Mode == "bodystdin" {
		if *op.ResultSummary == "" {
			op.ResultSummary = sp("flag summary")
		}
	}
}

func genMode(t *rapid.T, label string) string {
	return oneOf(t, []string{"json", "json", "json", "flags", "bodystdin"}, label)
}

// spoil adds one ingredient that must make the command fail (C10 material).
func spoil(t *rapid.T, g refGen, op *Op) {
	if op.Mode != "json" {
		switch between(t, 0, 2, "spoil.flag") {
		case 0:
			op.State = sp(oneOf(t, []string{"finished", "Done", "cancelled", "in-progress"}, "spoil.state"))
		case 1:
			r := Lit("000000")
			op.Epic = &r
		default:
			if op.Kind == "set" {
				op.ResultPath = sp("out/nowhere.txt")
				op.ResultSummary = sp("s")
			} else {
				op.State = sp("error")
			}
		}
		return
	}
	switch between(t, 0, 6, "spoil.json") {
	case 0:
		op.ExtraKey = "priority"
	case 1:
		op.State = sp(oneOf(t, []string{"finished", "Done", "cancelled", " done ", "in_progress", "TODO", "doing "}, "spoil.state"))
	case 2:
		r := Lit("000000")
		op.Epic = &r
	case 3:
		op.ResultPath = sp("out/nowhere.txt")
		op.ResultSummary = sp("s")
	case 4:
		op.State = sp("error")
		op.Claim = nil
		op.Agent = ""
	case 5:
		op.Title = sp("   ")
	default:
		raw := g.w.fieldsJSON(*op) + " {}"
		op.Raw = &raw
	}
}

// genOp draws one op for the current state.
func genOp(t *rapid.T, w *World, pre *Snapshot, prof Profile) Op {
	g := refGen{t, w, pre}
	weights := map[string]int{}
	for k, v := range prof.Weights {
		weights[k] = v
	}
	nTasks := len(g.ids(func(it *Item) bool { return !it.IsEpic }))
	if len(pre.Items) == 0 {
		for _, k := range []string{"set", "claim_id", "sequence", "sequence_rm"} {
			weights[k] = 0
		}
	}
	if w.Twin != nil || w.StepNo < 6 {
		weights["fork_compact"] = 0
	} else if weights["fork_compact"] > 0 {
		weights["fork_compact"] *= 3
	}
	if nTasks > 12 {
		weights["new_task"] = 1
		weights["plan"] = 0
	}
	if w.StepNo >= 2 && len(pre.Items) > 0 && pct(t, prof.ChopPct, "chop") {
		return Op{Kind: "chop_newline"}
	}
	if w.StepNo >= 2 && w.Twin == nil && len(pre.Items) > 0 && pct(t, prof.RedatePct, "redate") {
		return Op{Kind: "redate", Frac: float64(uni(t, 3, "redate.by"))}
	}
	if w.StepNo >= 2 && len(pre.Items) > 0 && pct(t, prof.DebrisPct, "debris") {
		return Op{Kind: "debris", FaultKind: oneOf(t, []string{"tmp_prefix", "tmp_prefix", "tmp_bigger", "tmp_garbage", "fragment", "fragment"}, "debris.kind"),
			Frac: float64(uni(t, 1000, "debris.frac")) / 1000}
	}
	kind := pickWeighted(t, weights, "kind")
	op := Op{Kind: kind}
	op.JSONAfter = pct(t, 15, "json.after")
	op.Quiet = pct(t, 10, "quiet")
	op.Verbose = pct(t, 5, "verbose")
	switch kind {
	case "new_task":
		op.Mode = genMode(t, "mode")
		genFields(t, g, prof, &op, true, false)
	case "new_epic":
		op.Mode = genMode(t, "mode")
		genFields(t, g, prof, &op, true, true)
		if op.Mode == "json" && pct(t, prof.Spoil/2, "epic.badfield") {
			switch between(t, 0, 2, "epic.badfield.which") {
			case 0:
				op.State = sp("done")
			case 1:
				op.Claim = sp("a1")
			default:
				r := g.pick("epic", 0, "epic.badfield.ref")
				op.Epic = &r
			}
		}
	case "set":
		op.Mode = genMode(t, "mode")
		want := "task"
		if pct(t, 12, "set.onepic") {
			want = "epic"
		}
		r := g.pick(want, prof.BadRef, "set.target")
		op.Target = &r
		isEpic := false
		if it := pre.Items[w.Resolve(r)]; it != nil && it.IsEpic && !pct(t, 30, "set.epic.asTask") {
			isEpic = true
		}
		genFields(t, g, prof, &op, false, isEpic)
		if op.Title == nil && op.Body == nil && op.Epic == nil && op.State == nil && op.Claim == nil && op.ResultPath == nil {
			if isEpic {
				op.Title = sp(genTitle(t, w, "title.fill"))
			} else {
				op.State = sp(genState(t, "state.fill"))
			}
		}
	case "claim":
		if !pct(t, 4, "claim.noagent") {
			op.Agent = oneOf(t, agents, "agent")
		}
		if pct(t, 25, "claim.epic") {
			r := g.pick("epic", prof.BadRef, "claim.epic.ref")
			op.EpicFilter = &r
		}
	case "claim_id":
		r := g.pick("task", prof.BadRef, "claim.target")
		op.Target = &r
		if !pct(t, 5, "claim.noagent") {
			op.Agent = oneOf(t, agents, "agent")
		}
		if pct(t, 8, "claimid.epic") {
			e := g.pick("epic", prof.BadRef, "claimid.epicref")
			if !(e.Op < 0 && e.Lit == "") {
				op.EpicFilter = &e
			}
		}
	case "sequence":
		n := between(t, 2, 4, "seq.n")
		want := "task"
		if pct(t, prof.seqEpicPct(), "seq.epics") {
			want = "epic"
		}
		if pct(t, prof.MixedPct, "seq.mixed") {
			if refs := genMixedSequence(t, g); refs != nil {
				op.Refs = refs
				break
			}
		}
		if pct(t, 12, "seq.close") {
			// aim at a longer cycle: a path a -> b -> c exists (a depends on b, b on c); ask for
			// c to depend on a
			var paths [][2]string
			for _, a := range pre.SortedIDs() {
				for _, b := range pre.Items[a].Deps {
					if bi := pre.Items[b]; bi != nil {
						for _, c := range bi.Deps {
							paths = append(paths, [2]string{a, c})
						}
					}
				}
			}
			if len(paths) > 0 {
				pth := paths[uni(t, len(paths), "seq.path")]
				op.Refs = []Ref{g.ref(pth[0]), g.ref(pth[1])}
				if pct(t, 50, "seq.implied") {
					// the other direction: a already reaches c, so "a after c" is implied, legal and
					// must still be recorded and reported truthfully
					op.Refs = []Ref{g.ref(pth[1]), g.ref(pth[0])}
				}
				break
			}
		}
		if pct(t, prof.MixedPct/2, "seq.waitcycle") {
			// model-guided: propose an edge that closes a cycle only in the combined waits-for
			// relation (through epic dependencies), if the current graph offers one
			if refs := genWaitCycleEdge(t, g); refs != nil {
				op.Refs = refs
				break
			}
		}
		if pct(t, 25, "seq.reverse") {
			// aim at a cycle: take an existing edge and ask for the opposite order
			var edges [][2]string
			for _, id := range pre.SortedIDs() {
				for _, d := range pre.Items[id].Deps {
					edges = append(edges, [2]string{id, d})
				}
			}
			if len(edges) > 0 {
				e := edges[uni(t, len(edges), "seq.edge")]
				op.Refs = []Ref{g.ref(e[0]), g.ref(e[1])}
				if pct(t, 50, "seq.reverse.lead") {
					lead := g.pick(want, 0, "seq.lead")
					op.Refs = append([]Ref{lead}, op.Refs...)
				}
				break
			}
		}
		for i := 0; i < n; i++ {
			op.Refs = append(op.Refs, g.pick(want, prof.BadRef/2, fmt.Sprintf("seq.ref%d", i)))
		}
	case "sequence_rm":
		var edges [][2]string
		for _, id := range pre.SortedIDs() {
			for _, d := range pre.Items[id].Deps {
				edges = append(edges, [2]string{id, d})
			}
		}
		if len(edges) > 0 && !pct(t, 25, "rm.random") {
			e := edges[uni(t, len(edges), "rm.edge")]
			op.Refs = []Ref{g.ref(e[1]), g.ref(e[0])} // rm A B removes B->A
		} else {
			op.Refs = []Ref{g.pick("any", prof.BadRef, "rm.a"), g.pick("any", prof.BadRef, "rm.b")}
		}
	case "plan":
		op.Plan = genPlanDoc(t, w, 1, 5)
		if pct(t, prof.Spoil, "plan.spoil") {
			damagePlan(t, &op)
		}
	case "prune", "prune_yes", "compact", "init", "fork_compact":
	}
	if (kind == "new_task" || kind == "set") && pct(t, prof.Spoil, "spoil") {
		spoil(t, g, &op)
	}
	if op.IsMutation() && pct(t, prof.HoldLock, "holdlock") {
		op.HoldLock = true
	}
	return op
}

// genPlanDoc builds a valid plan document with a random DAG of after references.
func genPlanDoc(t *rapid.T, w *World, minTasks, maxTasks int) *PlanDoc {
	n := between(t, minTasks, maxTasks, "plan.n")
	d := &PlanDoc{Title: sp(genTitle(t, w, "plan.title"))}
	if pct(t, 40, "plan.body") {
		d.Body = sp(genBody(t, "plan.bodytext"))
	}
	titles := make([]string, n)
	for i := range titles {
		titles[i] = genTitle(t, w, fmt.Sprintf("plan.t%d", i))
	}
	// random topological order: task order[i] may only depend on order[j], j < i
	order := rapid.Permutation(seqInts(n)).Draw(t, "plan.order")
	pos := make([]int, n)
	for p, i := range order {
		pos[i] = p
	}
	for i := 0; i < n; i++ {
		pt := PlanTask{Title: sp(titles[i])}
		if pct(t, 40, "plan.tbody") {
			pt.Body = sp(genBody(t, "plan.tbodytext"))
		}
		for j := 0; j < n; j++ {
			if pos[j] < pos[i] && pct(t, 35, "plan.edge") {
				pt.After = append(pt.After, titles[j])
				if pct(t, 10, "plan.dupedge") {
					pt.After = append(pt.After, titles[j])
				}
			}
		}
		d.Tasks = append(d.Tasks, pt)
	}
	return d
}

func seqInts(n int) []int {
	out := make([]int, n)
	for i := range out {
		out[i] = i
	}
	return out
}

// damagePlan turns a valid plan into one that is one edit away from valid.
func damagePlan(t *rapid.T, op *Op) {
	d := op.Plan
	n := len(d.Tasks)
	switch between(t, 0, 13, "plan.damage") {
	case 12, 13:
		// an after entry that is a title plus white space names no task
		if n >= 2 && d.Tasks[0].Title != nil {
			ref := *d.Tasks[0].Title
			near := oneOf(t, []string{ref + " ", " " + ref, ref + "\t"}, "plan.near")
			for _, x := range d.Tasks {
				if x.Title != nil && *x.Title == near {
					near = "no such task"
				}
			}
			d.Tasks[n-1].After = append(d.Tasks[n-1].After, near)
			return
		}
		d.Tasks[n-1].After = append(d.Tasks[n-1].After, "no such task")
	case 0:
		if n >= 2 {
			d.Tasks[n-1].Title = sp(*d.Tasks[0].Title)
			return
		}
		d.Tasks = append(d.Tasks, PlanTask{Title: sp(*d.Tasks[0].Title)})
	case 1:
		d.Tasks[n-1].After = append(d.Tasks[n-1].After, "no such task")
	case 2:
		d.Tasks[0].After = append(d.Tasks[0].After, *d.Tasks[0].Title)
	case 3:
		if n >= 2 {
			d.Tasks[0].After = []string{*d.Tasks[1].Title}
			d.Tasks[1].After = []string{*d.Tasks[0].Title}
			return
		}
		d.Tasks[0].After = []string{*d.Tasks[0].Title}
	case 4:
		d.Tasks = []PlanTask{}
	case 5:
		d.Title = nil
	case 6:
		d.Title = sp("  \t")
	case 7:
		d.Tasks[n-1].Title = sp("")
	case 8:
		d.Tasks[0].Body = sp("   ")
	case 9:
		raw := `{"title":"x","tasks":[{"title":"a","priority":1}]}`
		op.Raw = &raw
	case 10:
		raw := `{"title":"x","tasks":[{"title":"a"}]} {"title":"y","tasks":[{"title":"b"}]}`
		op.Raw = &raw
	default:
		raw := `{"title":"x","tasks":[{"title":"a"}`
		op.Raw = &raw
	}
}

// describeOps renders a history compactly for samples.
func describeOps(steps []StepOut) []string {
	var out []string
	for _, s := range steps {
		acc := "ok"
		if !s.Accepted {
			acc = "fail"
		}
		out = append(out, fmt.Sprintf("%s [%s/%s] %s", strings.Join(s.Cmd.Args, " "), s.Decision, acc, clip(s.Cmd.Stdin, 120)))
	}
	return out
}

// genMixedSequence aims at the interaction of task edges and epic edges: it proposes a
// task edge between members of two different epics, or an epic edge between the epics of
// two tasks that are already linked — in either direction, so that both harmless and
// deadlocking requests arise.
func genMixedSequence(t *rapid.T, g refGen) []Ref {
	members := map[string][]string{}
	var epicsWith []string
	for _, id := range g.pre.SortedIDs() {
		it := g.pre.Items[id]
		if !it.IsEpic && it.EpicID != "" {
			if len(members[it.EpicID]) == 0 {
				epicsWith = append(epicsWith, it.EpicID)
			}
			members[it.EpicID] = append(members[it.EpicID], id)
		}
	}
	if len(epicsWith) < 2 {
		return nil
	}
	i := uni(t, len(epicsWith), "mixed.e1")
	j := uni(t, len(epicsWith)-1, "mixed.e2")
	if j >= i {
		j++
	}
	e1, e2 := epicsWith[i], epicsWith[j]
	if pct(t, 50, "mixed.level") {
		return []Ref{g.ref(e1), g.ref(e2)}
	}
	t1 := oneOf(t, members[e1], "mixed.t1")
	t2 := oneOf(t, members[e2], "mixed.t2")
	return []Ref{g.ref(t1), g.ref(t2)}
}

// genWaitCycleEdge searches the current graph for a pair of tasks (or epics) whose
// linking is legal edge-wise but closes a cycle in the waits-for relation.
func genWaitCycleEdge(t *rapid.T, g refGen) []Ref {
	ids := g.pre.SortedIDs()
	var found [][2]string
	for _, a := range ids {
		for _, b := range ids {
			if a == b || g.pre.Items[a].IsEpic != g.pre.Items[b].IsEpic {
				continue
			}
			if hasStr(g.pre.Items[b].Deps, a) || reaches(g.pre, a, b, map[string]bool{}) {
				continue
			}
			exp := g.pre.Clone()
			exp.Items[b].Deps = addStr(exp.Items[b].Deps, a)
			if WaitCycle(exp) && !WaitCycle(g.pre) {
				found = append(found, [2]string{a, b})
			}
			if len(found) >= 8 {
				break
			}
		}
	}
	if len(found) == 0 {
		return nil
	}
	f := found[uni(t, len(found), "waitcycle.pick")]
	return []Ref{g.ref(f[0]), g.ref(f[1])}
}

// genWaitCycleMove searches for a task and an epic such that moving the task into the epic
// is legal field-wise but closes a cycle in the waits-for relation.
func genWaitCycleMove(t *rapid.T, g refGen) (task, epic *Ref) {
	var found [][2]string
	for _, a := range g.pre.SortedIDs() {
		x := g.pre.Items[a]
		if x.IsEpic {
			continue
		}
		for _, e := range g.pre.SortedIDs() {
			if !g.pre.Items[e].IsEpic || x.EpicID == e {
				continue
			}
			exp := g.pre.Clone()
			exp.Items[a].EpicID = e
			if WaitCycle(exp) && !WaitCycle(g.pre) {
				found = append(found, [2]string{a, e})
			}
		}
		if len(found) >= 8 {
			break
		}
	}
	if len(found) == 0 {
		return nil, nil
	}
	f := found[uni(t, len(found), "waitmove.pick")]
	a, e := g.ref(f[0]), g.ref(f[1])
	return &a, &e
}

package props

import (
	"fmt"
	"strings"
	"testing"

	"pgregory.net/rapid"
)

// Additional parts: the engines are the same, the command generators are aimed at the
// window a property talks about, and violations are attributed to that property.

// ---- C05: compaction under kills and under races ----

func TestC05Crash(t *testing.T) {
	runCrashTest(t, "C05", "TestC05Crash", "generated stores (incl. pruned items and results); `compact` is re-run on a fresh copy once per system call it issues on the store's files and killed by SIGKILL exactly before that call; compaction is invisible, so after every kill the observable state must equal the state before; non-trivial = the kill landed after the first and before the last mutating call; distinct = (store shape, kill position)", func(rt *rapid.T, w *World, pre *Snapshot) Op {
		return Op{Kind: "compact"}
	})
}

func genCompactRace(t *rapid.T, w *World, pre *Snapshot, n int) []Op {
	ops := genConcOps(t, w, pre, map[string]int{"new_task": 22, "set": 40, "claim": 8, "sequence": 10, "prune_yes": 6, "plan": 6, "new_epic": 4}, n)
	for i := range ops {
		// result attachments are part of what compaction must not lose
		if ops[i].Kind == "set" && ops[i].ResultPath == nil && ops[i].Mode == "json" && pct(t, 45, "race.result") {
			ops[i].Files = []FileSpec{{Path: "out/race.txt", Content: "raced result"}}
			ops[i].ResultPath, ops[i].ResultSummary = sp("out/race.txt"), sp("attached during compaction")
		}
	}
	k := uni(t, n, "compact.slot")
	ops[k] = Op{N: 1000 + k, Kind: "compact"}
	return ops
}

const compactRaceRule = "a generated store, one `compact` and 1-2 concurrent writers (set incl. result attachments, new task, claim, sequence, prune --yes, plan), parked / resumed by the controller or free-running; oracle: linearizability against the reference model, in which compact changes nothing - every acknowledged write, results included, is in effect afterwards exactly once; non-trivial = executions overlap and at least one park landed (or free-running)"

func TestC05Conc(t *testing.T) {
	runSchedTest(t, schedSpec{prop: "C05", test: "TestC05Conc", rule: compactRaceRule, genOps: genCompactRace, minN: 2, maxN: 3, setup: setupProfile})
}

func TestC20Conc(t *testing.T) {
	runSchedTest(t, schedSpec{prop: "C20", test: "TestC20Conc", rule: compactRaceRule, genOps: genCompactRace, minN: 2, maxN: 3,
		setup: Profile{Name: "result-setup", Weights: map[string]int{"new_task": 40, "set": 40, "new_epic": 6, "claim": 4, "compact": 4}, Results: 45}})
}

// ---- C06: state / claim commands under kills and under races ----

func genStateCmd(t *rapid.T, w *World, pre *Snapshot) Op {
	for tries := 0; tries < 6; tries++ {
		op := genMultiEventOp(t, w, pre)
		if op.Kind == "claim" || op.Kind == "claim_id" || ((op.Kind == "set" || op.Kind == "new_task") && (op.State != nil || op.Claim != nil)) {
			return op
		}
	}
	return Op{Kind: "claim", Agent: oneOf(t, agents, "agent")}
}

func TestC06Crash(t *testing.T) {
	runCrashTest(t, "C06", "TestC06Crash", "generated stores and generated commands that change state and claimant together (claim, claim <id>, set with state / claim, create with state / claim; bodies up to 9 KB), killed by SIGKILL before each system call they issue on the store's files; after every kill the task must be in the state before or after - in particular never doing / error without a claimant or todo / done / canceled with one; non-trivial = the kill landed between the command's first and last mutating call; distinct = (command shape, kill position)", genStateCmd)
}

func genStateRace(t *rapid.T, w *World, pre *Snapshot, n int) []Op {
	g := refGen{t, w, pre}
	tasks := g.ids(func(it *Item) bool { return !it.IsEpic })
	if len(tasks) == 0 {
		return genConcOps(t, w, pre, map[string]int{"new_task": 100}, n)
	}
	// all commands aim at one or two tasks, so that each is validated against a state the
	// others change
	targets := []string{oneOf(t, tasks, "t1")}
	if len(tasks) > 1 && pct(t, 40, "two") {
		targets = append(targets, oneOf(t, tasks, "t2"))
	}
	var ops []Op
	for i := 0; i < n; i++ {
		id := oneOf(t, targets, "target")
		r := g.ref(id)
		op := Op{N: 1000 + i, Mode: "json", Target: &r, Agent: oneOf(t, agents, "agent")}
		switch uni(t, 6, "shape") {
		case 5:
			// a bystander: init on an existing store must not disturb the lock others hold
			op = Op{N: 1000 + i, Kind: "init"}
		case 0:
			op.Kind = "claim_id"
		case 1:
			op.Kind, op.Claim = "set", sp(oneOf(t, agents, "claim"))
		case 2:
			op.Kind, op.Claim = "set", sp("")
		default:
			op.Kind, op.State = "set", sp(genState(t, "state"))
			if pct(t, 30, "withclaim") {
				op.Claim = sp(oneOf(t, agents, "claim"))
			}
		}
		ops = append(ops, op)
	}
	return ops
}

func TestC06Conc(t *testing.T) {
	runSchedTest(t, schedSpec{prop: "C06", test: "TestC06Conc", genOps: genStateRace, minN: 2, maxN: 3, setup: setupProfile,
		rule: "a generated store and 2-3 concurrent state / claim requests aimed at the same one or two tasks (set state, set claim, unclaim, claim <id>), parked / resumed by the controller or free-running; oracle: linearizability against the transition table and claim rule (each accepted request must be legal in the state left by its predecessors in the serial order) plus the claim invariants of the final state; non-trivial = executions overlap and at least one park landed (or free-running)",
		extra: func(pre, final *Snapshot, cmds []ConcCmd) []string {
			var out []string
			for _, v := range CheckInvariants(final) {
				if v.Prop == "C06" {
					out = append(out, v.Msg)
				}
			}
			return out
		}})
}

// ---- C07 / C15: racing sequence commands ----

func genSequenceRace(t *rapid.T, w *World, pre *Snapshot, n int) []Op {
	g := refGen{t, w, pre}
	kind := "task"
	if pct(t, 30, "epics") {
		kind = "epic"
	}
	pool := g.ids(func(it *Item) bool { return it.IsEpic == (kind == "epic") })
	if len(pool) < 2 {
		pool = g.ids(func(it *Item) bool { return !it.IsEpic })
	}
	if len(pool) < 2 {
		return genConcOps(t, w, pre, map[string]int{"new_task": 100}, n)
	}
	perm := rapid.Permutation(pool).Draw(t, "pool")
	k := between(t, 2, min(4, len(perm)), "chain")
	chain := perm[:k]
	var ops []Op
	for i := 0; i < n; i++ {
		op := Op{N: 1000 + i, Kind: "sequence"}
		var ids []string
		switch uni(t, 4, "shape") {
		case 0: // the same chain
			ids = chain
		case 1: // the opposite order: together with the first it would close a cycle
			for j := len(chain) - 1; j >= 0; j-- {
				ids = append(ids, chain[j])
			}
		case 2: // an overlapping chain closing the loop
			ids = append(append([]string{}, chain[1:]...), chain[0])
		default:
			p2 := rapid.Permutation(pool).Draw(t, "other")
			ids = p2[:between(t, 2, min(3, len(p2)), "othern")]
		}
		for _, id := range ids {
			op.Refs = append(op.Refs, g.ref(id))
		}
		if pct(t, 12, "rm") && len(ids) >= 2 {
			op.Kind, op.Refs = "sequence_rm", op.Refs[:2]
		}
		ops = append(ops, op)
	}
	return ops
}

// genMixedRace: a task edge between two epics racing the epic edge in the other direction.
func genMixedRace(t *rapid.T, w *World, pre *Snapshot, n int) []Op {
	g := refGen{t, w, pre}
	var a, b []Ref
	if refs := genMixedSequence(t, g); refs != nil {
		a = refs
	}
	if refs := genMixedSequence(t, g); refs != nil {
		b = refs
	}
	if a == nil || b == nil {
		return genSequenceRace(t, w, pre, n)
	}
	ops := []Op{{N: 1000, Kind: "sequence", Refs: a}, {N: 1001, Kind: "sequence", Refs: b}}
	for i := 2; i < n; i++ {
		ops = append(ops, genSequenceRace(t, w, pre, 1)[0])
		ops[i].N = 1000 + i
	}
	// an agent asking for work meanwhile: "nothing is ready" must be true at that moment
	if n >= 3 && pct(t, 55, "mixed.claim") {
		ops[2] = Op{N: 1002, Kind: "claim", Agent: oneOf(t, agents, "mixed.claim.agent")}
	} else if n == 2 && pct(t, 25, "mixed.claim2") {
		ops[1] = Op{N: 1001, Kind: "claim", Agent: oneOf(t, agents, "mixed.claim.agent")}
	}
	return ops
}

func graphExtra(prop string) func(pre, final *Snapshot, cmds []ConcCmd) []string {
	return func(pre, final *Snapshot, cmds []ConcCmd) []string {
		var out []string
		for _, v := range CheckInvariants(final) {
			if v.Prop == prop {
				out = append(out, v.Msg)
			}
		}
		if prop == "C15" && WaitCycle(final) && !WaitCycle(pre) {
			out = append(out, "the concurrent commands built a cycle in the waits-for relation (task dependencies plus those inherited through epic dependencies)")
		}
		return out
	}
}

func TestC15Conc(t *testing.T) {
	runSchedTest(t, schedSpec{prop: "C15", test: "TestC15Conc", genOps: genMixedRace, minN: 2, maxN: 3, extra: graphExtra("C15"),
		setup: Profile{Name: "two-level-setup", Weights: map[string]int{"new_task": 46, "new_epic": 22, "sequence": 10, "set": 8}, EpicPct: 85, StatePct: 5, ClaimPct: -1, SeqEpicPct: 30},
		rule:  "a generated two-level store (most tasks inside epics) and 2-3 concurrent commands - `sequence` commands, one linking tasks of two epics and one linking those epics, in drawn directions, and in half of the cases a `claim` -, parked / resumed by the controller or free-running; oracle: linearizability (a request that closes a waits-for cycle at its position in the serial order must have been rejected; a claim that says nothing is ready must be true at its position) and no waits-for cycle in the final graph; non-trivial = executions overlap and at least one park landed (or free-running)"})
}

// ---- C08: the claim race, judged as "claim takes the oldest ready task" ----

func TestC08Conc(t *testing.T) {
	runSchedTest(t, schedSpec{prop: "C08", test: "TestC08Conc", genOps: genClaimRace, minN: 2, maxN: 3, setup: claimSetup, clockPct: 24,
		rule: "a generated store and 2-3 concurrent commands - claims (with / without --epic) plus writers that change which task is the oldest ready one (reopen, finish, move, create) - parked / resumed by the controller, biased to the window before the lock is taken; oracle: in the serial order given by commit order every claim returns the oldest ready task of the state at its position, within --epic if given; non-trivial = executions overlap and at least one park landed (or free-running)"})
}

// ---- C10: failing commands under injected errors and under lock contention ----

func TestC10Faults(t *testing.T) {
	runFaultErrTest(t, "C10", "TestC10Faults", genMultiEventOp)
}

func genSetResultRace(t *rapid.T, w *World, pre *Snapshot, n int) []Op {
	g := refGen{t, w, pre}
	tasks := g.ids(func(it *Item) bool { return !it.IsEpic })
	ops := genConcOps(t, w, pre, map[string]int{"new_task": 30, "set": 40, "claim": 10, "compact": 10, "sequence": 10}, n)
	if len(tasks) == 0 {
		return ops
	}
	// one multi-part command: result + other fields (several lock sections in a careless
	// implementation); the others only need to hold the lock at the right moment
	id := oneOf(t, tasks, "target")
	r := g.ref(id)
	op := Op{N: 1000, Kind: "set", Mode: "json", Target: &r, Agent: "a1", Title: sp(w.UniqueTitle("multi")), Body: sp(genBody(t, "body"))}
	op.Files = []FileSpec{{Path: "out/multi.txt", Content: "multi"}}
	op.ResultPath, op.ResultSummary = sp("out/multi.txt"), sp("multi part")
	if pct(t, 50, "chain") && len(tasks) >= 3 {
		perm := rapid.Permutation(tasks).Draw(t, "perm")
		op = Op{N: 1000, Kind: "sequence", Refs: []Ref{g.ref(perm[0]), g.ref(perm[1]), g.ref(perm[2])}}
	}
	if pct(t, 40, "failing") {
		// a command that is bound to fail on validation, whatever the others do: it must
		// contribute nothing - also nothing negative (a "roll back to where I started" that
		// takes somebody else's commit with it)
		switch uni(t, 3, "failing.kind") {
		case 0:
			op = Op{N: 1000, Kind: "sequence", Refs: []Ref{g.ref(id), g.ref(id)}}
		case 1:
			refs := []Ref{g.ref(id)}
			if len(tasks) >= 2 {
				refs = append(refs, g.ref(tasks[(uni(t, len(tasks)-1, "other")+1)%len(tasks)]))
			}
			op = Op{N: 1000, Kind: "sequence", Refs: append(refs, Lit("ZZZZZ9"))}
		default:
			op = Op{N: 1000, Kind: "set", Mode: "json", Target: &r, Agent: "a1", Title: sp(w.UniqueTitle("never")), State: sp("bogus")}
		}
	}
	ops[0] = op
	return ops
}

func TestC10Conc(t *testing.T) {
	runSchedTest(t, schedSpec{prop: "C10", test: "TestC10Conc", genOps: genSetResultRace, minN: 2, maxN: 3, setup: setupProfile,
		rule: "a generated store, one multi-part command (set with a result attachment plus title and body, or a three-item sequence; in 40 % of the cases a request bound to fail on validation: self dependency, unknown id at the end of a chain, unknown state next to a title) and 1-2 other writers, parked / resumed by the controller so that the multi-part command meets a held lock at any of its lock attempts; oracle: linearizability in which a command that exited non-zero - lock busy included - contributed nothing; non-trivial = executions overlap and at least one park landed (or free-running)"})
}

// ---- C14: epic references under races and under kills ----

func genEpicRace(t *rapid.T, w *World, pre *Snapshot, n int) []Op {
	g := refGen{t, w, pre}
	epics := g.ids(func(it *Item) bool { return it.IsEpic })
	tasks := g.ids(func(it *Item) bool { return !it.IsEpic })
	ops := []Op{{N: 1000, Kind: "prune_yes"}}
	for i := 1; i < n; i++ {
		op := Op{N: 1000 + i, Mode: "json", Agent: oneOf(t, agents, "agent")}
		switch {
		case len(epics) == 0:
			op.Kind, op.Title = "new_task", sp(w.UniqueTitle("late"))
		case len(tasks) > 0 && pct(t, 40, "move"):
			r := g.ref(oneOf(t, tasks, "task"))
			e := g.ref(oneOf(t, epics, "epic"))
			op.Kind, op.Target, op.Epic = "set", &r, &e
		default:
			e := g.ref(oneOf(t, epics, "epic"))
			op.Kind, op.Title, op.Epic = "new_task", sp(w.UniqueTitle("late member")), &e
		}
		ops = append(ops, op)
	}
	perm := rapid.Permutation(seqInts(len(ops))).Draw(t, "perm")
	out := make([]Op, len(ops))
	for i, p := range perm {
		out[i] = ops[p]
		out[i].N = 1000 + i
	}
	return out
}

func TestC14Conc(t *testing.T) {
	runSchedTest(t, schedSpec{prop: "C14", test: "TestC14Conc", genOps: genEpicRace, minN: 2, maxN: 3,
		setup: Profile{Name: "empty-epics-setup", Weights: map[string]int{"new_epic": 34, "new_task": 34, "set": 26, "sequence": 6}, EpicPct: 35, StatePool: []string{"done", "done", "canceled", "todo"}, StatePct: 55, ClaimPct: -1},
		rule:  "a generated store with empty and finished epics, one `prune --yes` (which removes them) and 1-2 concurrent writers that file a task under an epic (new task --epic, set epic), parked / resumed by the controller with a bias to the window before the lock is taken; oracle: linearizability (a task can only be filed under an epic that is live at its position in the serial order) and every epic reference of the final state names a live epic; non-trivial = executions overlap and at least one park landed (or free-running)",
		extra: graphExtra("C14")})
}

// bulkPruneWorld builds a store with more than a hundred finished tasks spread over epics,
// through plain commands (no step oracle: speed), for prune experiments that need size.
func bulkPruneWorld(w *World, nEpics, per, keep int) (*Snapshot, bool) {
	n := 0
	for e := 0; e < nEpics; e++ {
		var tasks []string
		for k := 0; k < per; k++ {
			n++
			tasks = append(tasks, fmt.Sprintf(`{"title":"bulk %d"}`, n))
		}
		r := Run(Cmd{Args: []string{"--json", "plan"}, Mode: StdinPipe, Stdin: fmt.Sprintf(`{"title":"bulk epic %d","tasks":[%s]}`, e, strings.Join(tasks, ",")), Dir: w.Root})
		if !r.OK() {
			return nil, false
		}
	}
	items, err := ListAll(w.Root)
	if err != nil {
		return nil, false
	}
	for i, it := range items {
		if i < keep {
			continue
		}
		Run(Cmd{Args: []string{"--json", "set", it.ID}, Mode: StdinPipe, Stdin: `{"state":"done"}`, Dir: w.Root})
	}
	snap, err := TakeSnapshot(w.Root)
	if err != nil {
		return nil, false
	}
	for id := range snap.Items {
		if !w.Seen[id] {
			w.AddID(id, 800)
		}
	}
	return snap, true
}

func TestC14Crash(t *testing.T) {
	runBulkPruneCrash(t, "C14", "TestC14Crash")
}

func TestC04Bulk(t *testing.T) {
	runBulkPruneCrash(t, "C04", "TestC04Bulk")
}

// ---- C16: replies under races ----

func TestC16Conc(t *testing.T) {
	runSchedTest(t, schedSpec{prop: "C16", test: "TestC16Conc", minN: 2, maxN: 3, setup: setupProfile,
		kinds: map[string]int{"prune_yes": 26, "new_task": 18, "set": 26, "claim": 10, "claim_id": 6, "sequence": 8, "plan": 6},
		rule:  "a generated store and 2-3 concurrent --json commands weighted to those whose reply describes state (prune --yes, set, claim, new task, plan, sequence), parked / resumed by the controller or free-running; oracle: some serial order of the acknowledged commands must reproduce every reply (pruned ids, claimed task, state and claimant, edges, new ids) - a reply computed from a stale or a later state has none; non-trivial = executions overlap and at least one park landed (or free-running)"})
}

func TestC05Faults(t *testing.T) {
	runFaultErrTest(t, "C05", "TestC05Faults", func(rt *rapid.T, w *World, pre *Snapshot) Op { return Op{Kind: "compact"} })
}

func TestC09Bulk(t *testing.T) {
	runBulkPruneCrash(t, "C09", "TestC09Bulk")
}

func TestC11Faults(t *testing.T) {
	runFaultErrTest(t, "C11", "TestC11Faults", func(rt *rapid.T, w *World, pre *Snapshot) Op {
		return Op{Kind: "plan", Plan: genRichPlan(rt, w)}
	})
}

func TestC16Faults(t *testing.T) {
	runFaultErrTest(t, "C16", "TestC16Faults", genMultiEventOp)
}

// genTextRace: title / body edits racing a compaction (or a plan, which rewrites the log too).
func genTextRace(t *rapid.T, w *World, pre *Snapshot, n int) []Op {
	g := refGen{t, w, pre}
	items := pre.SortedIDs()
	var ops []Op
	for i := 0; i < n; i++ {
		if len(items) == 0 {
			ops = append(ops, Op{N: 1000 + i, Kind: "new_task", Mode: "json", Title: sp(genTitle(t, w, "title"))})
			continue
		}
		r := g.ref(oneOf(t, items, "target"))
		op := Op{N: 1000 + i, Kind: "set", Mode: oneOf(t, []string{"json", "json", "bodystdin"}, "mode"), Target: &r}
		if pct(t, 60, "title") {
			op.Title = sp(genTitle(t, w, "title"))
		}
		if op.Title == nil || pct(t, 60, "body") || op.Mode == "bodystdin" {
			op.Body = sp(genBody(t, "body") + " " + w.UniqueTitle("b"))
		}
		ops = append(ops, op)
	}
	k := uni(t, n, "rewrite.slot")
	if pct(t, 70, "rewrite.compact") {
		ops[k] = Op{N: 1000 + k, Kind: "compact"}
	} else {
		ops[k] = Op{N: 1000 + k, Kind: "plan", Plan: genPlanDoc(t, w, 1, 3)}
	}
	return ops
}

func TestC17Conc(t *testing.T) {
	runSchedTest(t, schedSpec{prop: "C17", test: "TestC17Conc", genOps: genTextRace, minN: 2, maxN: 3, setup: setupProfile,
		rule: "a generated store, one whole-log rewrite (compact or plan) and 1-2 concurrent title / body edits (JSON and --body-stdin), parked / resumed by the controller or free-running; oracle: linearizability - every acknowledged text is what show returns afterwards (the last one in the serial order), none is reverted by the rewrite; non-trivial = executions overlap and at least one park landed (or free-running)"})
}

func TestC09Faults(t *testing.T) {
	runFaultErrTest(t, "C09", "TestC09Faults", func(rt *rapid.T, w *World, pre *Snapshot) Op { return Op{Kind: "prune_yes", Agent: "pruner"} })
}

// ---- C18: init next to running commands ----

// TestC18Conc: `init` on an existing store changes nothing - also not the lock other
// commands are holding. One command is stopped inside its lock section, `init` runs, the
// other commands run; everything acknowledged must be there afterwards and nobody may get
// into the lock section meanwhile.
func TestC18Conc(t *testing.T) {
	runSchedTest(t, schedSpec{prop: "C18", test: "TestC18Conc", minN: 2, maxN: 3, setup: setupProfile, holderInit: true, mutex: true,
		kinds: map[string]int{"new_task": 24, "set": 20, "plan": 14, "compact": 14, "claim": 8, "sequence": 8, "prune_yes": 8, "new_epic": 4},
		rule:  "a generated store and 2-3 concurrent mutating commands (plan and compact - the whole-file rewrites - weighted up) plus an `init` bystander; in four of five controlled cases one command is stopped inside its lock section, `init` runs to completion, then the others run, then the holder goes on; oracle: linearizability of the acknowledged commands (nothing acknowledged is lost, init changes no item) and nobody changes the log while the stopped holder has the flock; non-trivial = executions overlap and at least one park landed (or free-running)"})
}

// TestC20Faults: results survive rewrites that hit I/O errors. Stores rich in results; the
// command is a compact, a plan (both rewrite the whole log) or a set attaching one more.
func TestC20Faults(t *testing.T) {
	withResults := Profile{Name: "results-setup", Weights: map[string]int{"new_task": 34, "set": 44, "new_epic": 8, "sequence": 8, "claim": 4}, Results: 55, EpicPct: 30, StatePct: 25}
	faultSetupProfile = &withResults
	runFaultErrTest(t, "C20", "TestC20Faults", func(rt *rapid.T, w *World, pre *Snapshot) Op {
		switch uni(rt, 10, "c20f.kind") {
		case 0, 1, 2, 3, 4:
			return Op{Kind: "compact"}
		case 5, 6, 7:
			return Op{Kind: "plan", Plan: genRichPlan(rt, w)}
		}
		g := refGen{rt, w, pre}
		op := Op{Kind: "set", Mode: "json", Agent: "a1"}
		r := g.pick("task", 0, "c20f.target")
		op.Target = &r
		genResult(rt, g, &op)
		return op
	})
}

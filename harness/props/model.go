package props

import (
	"sort"
	"strings"
)

// This file is the reference model: documented semantics written down independently of
// /repo (sources: internal/ergo/help.txt, quickstart.txt, docs/spec.md, the property
// statements; the transition table is the one the manual refers to — DESIGN Appendix A).

var AllStates = []string{"todo", "doing", "done", "blocked", "canceled", "error"}

var transitionTable = map[string]map[string]bool{
	"todo":     {"doing": true, "done": true, "blocked": true, "canceled": true},
	"doing":    {"todo": true, "done": true, "blocked": true, "canceled": true, "error": true},
	"blocked":  {"todo": true, "doing": true, "done": true, "canceled": true},
	"done":     {"todo": true},
	"canceled": {"todo": true},
	"error":    {"todo": true, "doing": true, "canceled": true},
}

func validState(s string) bool {
	for _, x := range AllStates {
		if x == s {
			return true
		}
	}
	return false
}

func needsClaim(state string) bool { return state == "doing" || state == "error" }
func forbidsClaim(state string) bool {
	return state == "todo" || state == "done" || state == "canceled"
}
func finished(state string) bool { return state == "done" || state == "canceled" }

// ModelReady is the manual's definition of "ready".
func ModelReady(s *Snapshot, t *Item) bool {
	if t.IsEpic || t.State != "todo" || t.ClaimedBy != "" {
		return false
	}
	for _, d := range t.Deps {
		o := s.Items[d]
		if o == nil {
			continue // pruned
		}
		if !finished(o.State) {
			return false
		}
	}
	if t.EpicID != "" {
		if ep := s.Items[t.EpicID]; ep != nil {
			for _, ed := range ep.Deps {
				de := s.Items[ed]
				if de == nil || !de.IsEpic {
					continue
				}
				for _, c := range s.Items {
					if !c.IsEpic && c.EpicID == ed && !finished(c.State) {
						return false
					}
				}
			}
		}
	}
	return true
}

// ModelBlocked is the manual's definition of "blocked".
func ModelBlocked(s *Snapshot, t *Item) bool {
	if t.IsEpic {
		return false
	}
	if t.State == "blocked" {
		return true
	}
	return t.State == "todo" && t.ClaimedBy == "" && !ModelReady(s, t)
}

// ReadyInOrder returns the ready tasks (optionally within one epic) ordered by creation
// time; ties share a rank (tieGroups[i] lists ids with equal created_at).
func ReadyInOrder(s *Snapshot, epic string) [][]string {
	var ready []*Item
	for _, t := range s.Items {
		if t.IsEpic || !ModelReady(s, t) {
			continue
		}
		if epic != "" && t.EpicID != epic {
			continue
		}
		ready = append(ready, t)
	}
	sort.Slice(ready, func(i, j int) bool {
		if ready[i].CreatedAt != ready[j].CreatedAt {
			return timeLess(ready[i].CreatedAt, ready[j].CreatedAt)
		}
		return ready[i].ID < ready[j].ID
	})
	var groups [][]string
	for i, t := range ready {
		if i > 0 && timeEqual(ready[i-1].CreatedAt, t.CreatedAt) {
			groups[len(groups)-1] = append(groups[len(groups)-1], t.ID)
		} else {
			groups = append(groups, []string{t.ID})
		}
	}
	return groups
}

// PruneSet is what `prune` must remove: done/canceled tasks, then epics left without a
// remaining child.
func PruneSet(s *Snapshot) []string {
	gone := map[string]bool{}
	for _, t := range s.Items {
		if !t.IsEpic && finished(t.State) {
			gone[t.ID] = true
		}
	}
	remaining := map[string]int{}
	for _, t := range s.Items {
		if !t.IsEpic && !gone[t.ID] && t.EpicID != "" {
			remaining[t.EpicID]++
		}
	}
	for _, e := range s.Items {
		if e.IsEpic && remaining[e.ID] == 0 {
			gone[e.ID] = true
		}
	}
	ids := make([]string, 0, len(gone))
	for id := range gone {
		ids = append(ids, id)
	}
	sort.Strings(ids)
	return ids
}

// Recompute sets Ready/Blocked/HasResults and rdeps of every item from the model.
func Recompute(s *Snapshot) {
	r := map[string][]string{}
	for _, it := range s.Items {
		for _, d := range it.Deps {
			r[d] = append(r[d], it.ID)
		}
	}
	for _, it := range s.Items {
		sort.Strings(it.Deps)
		it.RDeps = nz(r[it.ID])
		sort.Strings(it.RDeps)
		it.HasResults = len(it.Results) > 0
	}
	for _, it := range s.Items {
		it.Ready = ModelReady(s, it)
		it.Blocked = ModelBlocked(s, it)
	}
}

// reaches reports whether to is reachable from from along deps.
func reaches(s *Snapshot, from, to string, seen map[string]bool) bool {
	if from == to {
		return true
	}
	if seen[from] {
		return false
	}
	seen[from] = true
	it := s.Items[from]
	if it == nil {
		return false
	}
	for _, d := range it.Deps {
		if reaches(s, d, to, seen) {
			return true
		}
	}
	return false
}

// WaitCycle reports whether the effective waits-for relation (a task's own dependencies
// plus, through its epic's dependencies, every task of those epics) has a cycle.
func WaitCycle(s *Snapshot) bool {
	members := map[string][]string{}
	for _, t := range s.Items {
		if !t.IsEpic && t.EpicID != "" {
			members[t.EpicID] = append(members[t.EpicID], t.ID)
		}
	}
	waits := func(id string) []string {
		t := s.Items[id]
		var out []string
		for _, d := range t.Deps {
			if o := s.Items[d]; o != nil && !o.IsEpic {
				out = append(out, d)
			}
		}
		if t.EpicID != "" {
			if ep := s.Items[t.EpicID]; ep != nil {
				for _, ed := range ep.Deps {
					if o := s.Items[ed]; o != nil && o.IsEpic {
						out = append(out, members[ed]...)
					}
				}
			}
		}
		return out
	}
	color := map[string]int{}
	var visit func(string) bool
	visit = func(id string) bool {
		color[id] = 1
		for _, n := range waits(id) {
			if color[n] == 1 {
				return true
			}
			if color[n] == 0 && visit(n) {
				return true
			}
		}
		color[id] = 2
		return false
	}
	for _, id := range s.SortedIDs() {
		if !s.Items[id].IsEpic && color[id] == 0 && visit(id) {
			return true
		}
	}
	return false
}

func isBlank(s string) bool { return strings.TrimSpace(s) == "" }

package props

import (
	"encoding/json"
	"fmt"
	"os"
	"path/filepath"
	"strings"
	"sync"
	"sync/atomic"
	"time"
)

var uuidSeq int64

// Log synthesis: generated stores are written as log files instead of being built by
// dozens of commands. The harness does not hard-code ergo's event format: at start-up it
// runs a fixed scenario through the real CLI with marker values, reads the log ergo
// wrote, and learns for every event type which JSON keys carry the id, the agent, the
// state, the timestamps ... by matching the marker values. Generated logs are instances
// of these captured lines, so a renamed key or an added field is followed automatically.
// A calibration step (CalibrateSynth) checks on each run that a synthesized log reads
// the same as the same world built through the CLI before synthesis is trusted.

type evTemplate struct {
	Type string
	Top  map[string]any // top-level object with "data" removed
	Data map[string]any
	// role -> key in Data
	Keys map[string]string
	// keys (top-level and data) that hold timestamps
	TopTS  []string
	DataTS []string
}

// Synth holds the captured templates.
type Synth struct {
	T map[string]*evTemplate
}

var synthOnce struct {
	sync.Once
	s   *Synth
	err error
}

// GetSynth captures the templates once per process.
func GetSynth() (*Synth, error) {
	synthOnce.Do(func() { synthOnce.s, synthOnce.err = captureTemplates() })
	return synthOnce.s, synthOnce.err
}

func isTimeString(v any) bool {
	s, ok := v.(string)
	if !ok || len(s) < 20 {
		return false
	}
	_, err := time.Parse(time.RFC3339Nano, s)
	return err == nil
}

func captureTemplates() (*Synth, error) {
	root := NewStore("capture")
	defer RemoveAll(root)
	run := func(stdin string, args ...string) (map[string]any, error) {
		c := Cmd{Args: append([]string{"--json"}, args...), Dir: root}
		if stdin != "" {
			c.Mode, c.Stdin = StdinPipe, stdin
		}
		r := Run(c)
		if !r.OK() {
			return nil, fmt.Errorf("capture: %v failed: %s", args, r.Stderr)
		}
		var m map[string]any
		_ = StrictJSON(r.Stdout, &m)
		return m, nil
	}
	var firstErr error
	must := func(m map[string]any, err error) map[string]any {
		if err != nil && firstErr == nil {
			firstErr = err
		}
		return m
	}
	e1 := asString(must(run(`{"title":"CAP_EPIC_TITLE","body":"CAP_EPIC_BODY"}`, "new", "epic"))["id"])
	e2 := asString(must(run(`{"title":"CAP_EPIC2"}`, "new", "epic"))["id"])
	t1r := must(run(fmt.Sprintf(`{"title":"CAP_TITLE","body":"CAP_BODY","epic":%q}`, e1), "new", "task"))
	t1 := asString(t1r["id"])
	t2 := asString(must(run(`{"title":"CAP_T2"}`, "new", "task"))["id"])
	must(run(`{"state":"doing","claim":"CAP_AGENT"}`, "set", t1))
	must(run(`{"state":"blocked"}`, "set", t1))
	must(run(`{"claim":""}`, "set", t1))
	must(run(`{"title":"CAP_TITLE2"}`, "set", t1))
	must(run(`{"body":"CAP_BODY2"}`, "set", t1))
	must(run(fmt.Sprintf(`{"epic":%q}`, e2), "set", t1))
	must(run("", "sequence", t1, t2))
	must(run("", "sequence", "rm", t1, t2))
	_ = os.MkdirAll(filepath.Join(root, "capdir"), 0o755)
	_ = os.WriteFile(filepath.Join(root, "capdir", "capfile.txt"), []byte("CAP_CONTENT"), 0o644)
	must(run(`{"result_path":"capdir/capfile.txt","result_summary":"CAP_SUMMARY"}`, "set", t2))
	must(run(`{"state":"done"}`, "set", t2))
	must(run("", "--agent", "CAP_PRUNER", "prune", "--yes"))
	if firstErr != nil {
		return nil, firstErr
	}
	markers := map[string]string{
		e1: "epic", e2: "epic", t1: "id", t2: "id",
		"CAP_AGENT": "agent", "CAP_PRUNER": "agent",
		"CAP_TITLE": "title", "CAP_TITLE2": "title", "CAP_EPIC_TITLE": "title", "CAP_T2": "title", "CAP_EPIC2": "title",
		"CAP_BODY": "body", "CAP_BODY2": "body", "CAP_EPIC_BODY": "body",
		"CAP_SUMMARY": "summary", "capdir/capfile.txt": "path",
		"todo": "state", "doing": "state", "blocked": "state", "done": "state",
	}
	s := &Synth{T: map[string]*evTemplate{}}
	lines, _ := LogLines(ReadLog(root))
	for _, l := range lines {
		var top map[string]any
		if json.Unmarshal([]byte(l), &top) != nil {
			continue
		}
		typ, _ := top["type"].(string)
		data, _ := top["data"].(map[string]any)
		if typ == "" || data == nil || s.T[typ] != nil {
			continue
		}
		tp := &evTemplate{Type: typ, Top: map[string]any{}, Data: data, Keys: map[string]string{}}
		for k, v := range top {
			if k == "data" {
				continue
			}
			tp.Top[k] = v
			if isTimeString(v) {
				tp.TopTS = append(tp.TopTS, k)
			}
		}
		for k, v := range data {
			if isTimeString(v) {
				tp.DataTS = append(tp.DataTS, k)
				continue
			}
			sv, ok := v.(string)
			if !ok {
				continue
			}
			role := markers[sv]
			switch typ {
			case "new_task", "new_epic":
				// the item's own id vs the epic it belongs to
				if sv == e1 && typ == "new_task" {
					role = "epic"
				} else if sv == e1 || sv == e2 || sv == t1 || sv == t2 {
					role = "id"
				}
			case "link", "unlink":
				if sv == t2 {
					role = "from"
				} else if sv == t1 {
					role = "to"
				}
			case "epic":
				if sv == t1 {
					role = "id"
				} else if sv == e2 {
					role = "epic"
				}
			case "tombstone":
				if sv == t1 || sv == t2 || sv == e1 || sv == e2 {
					role = "id"
				}
			default:
				if sv == t1 || sv == t2 {
					role = "id"
				}
			}
			if len(sv) == 36 && strings.Count(sv, "-") == 4 {
				role = "uuid"
			}
			if len(sv) == 64 && typ == "result" {
				role = "sha"
			}
			if role != "" {
				if _, dup := tp.Keys[role]; !dup {
					tp.Keys[role] = k
				}
			}
		}
		s.T[typ] = tp
	}
	// new_task carries an epic key even when empty: take it from the captured task
	if nt := s.T["new_task"]; nt != nil && nt.Keys["epic"] == "" {
		return nil, fmt.Errorf("capture: cannot find the epic key of new_task")
	}
	if ne, nt := s.T["new_epic"], s.T["new_task"]; ne != nil && nt != nil {
		for role, k := range nt.Keys {
			if _, ok := ne.Keys[role]; !ok {
				if _, has := ne.Data[k]; has {
					ne.Keys[role] = k
				}
			}
		}
	}
	for _, typ := range []string{"new_task", "new_epic", "state", "claim", "unclaim", "link", "unlink", "title", "body", "epic", "tombstone", "result"} {
		if s.T[typ] == nil {
			return nil, fmt.Errorf("capture: ergo wrote no %q event in the capture scenario", typ)
		}
	}
	return s, nil
}

// Line instantiates an event of the given type: roles maps role names (id, epic, state,
// agent, title, body, from, to, summary, path, sha) to values; ts is the timestamp used
// for every time field.
func (s *Synth) Line(typ string, ts string, roles map[string]string) string {
	tp := s.T[typ]
	top := map[string]any{}
	for k, v := range tp.Top {
		top[k] = v
	}
	for _, k := range tp.TopTS {
		top[k] = ts
	}
	data := map[string]any{}
	for k, v := range tp.Data {
		data[k] = v
	}
	for _, k := range tp.DataTS {
		data[k] = ts
	}
	for role, val := range roles {
		if k, ok := tp.Keys[role]; ok {
			data[k] = val
		}
	}
	if k, ok := tp.Keys["uuid"]; ok {
		if _, given := roles["uuid"]; !given {
			data[k] = fmt.Sprintf("00000000-0000-4000-8000-%012x", atomic.AddInt64(&uuidSeq, 1))
		}
	}
	top["data"] = data
	b, _ := json.Marshal(top)
	return string(b)
}

// Role reads a role's value out of a parsed event of a known type ("" if unknown).
func (s *Synth) Role(ev LogEvent, role string) string {
	tp := s.T[ev.Type]
	if tp == nil {
		return ""
	}
	k, ok := tp.Keys[role]
	if !ok {
		return ""
	}
	return ev.Str(k)
}

// ---- world descriptions ----

// SynItem is one item of a synthesized world.
type SynItem struct {
	ID       string   `json:"id"`
	IsEpic   bool     `json:"is_epic,omitempty"`
	Epic     string   `json:"epic,omitempty"`      // final epic
	FromEpic string   `json:"from_epic,omitempty"` // created in this epic, then moved (or "-" = created at the root)
	State    string   `json:"state,omitempty"`
	Claim    string   `json:"claim,omitempty"`
	Created  int      `json:"created"` // index into the world's timestamp pool (equal index = tie)
	Deps     []string `json:"deps,omitempty"`
	Pruned   bool     `json:"pruned,omitempty"`
	Title    string   `json:"title"`
}

// SynWorld is a generated store.
type SynWorld struct {
	Items []SynItem `json:"items"`
}

// synBaseYear lets a world be dated in the future (a clone whose clock ran ahead).
var synBaseYear = 2026

// synStepNS is the distance between two entries of a world's timestamp pool (default one
// second; smaller steps put several creations into one second or one millisecond).
var synStepNS int64 = int64(time.Second)

func synTS(i int) string {
	base := time.Date(synBaseYear, 1, 2, 3, 4, 5, 0, time.UTC)
	return base.Add(time.Duration(int64(i) * synStepNS)).Format(time.RFC3339Nano)
}

// Render writes the world as a log, in an order ergo itself could have produced: items
// in creation order, then moves, claims/states, links, tombstones.
func (s *Synth) Render(w SynWorld) string {
	var b strings.Builder
	add := func(l string) { b.WriteString(l); b.WriteByte('\n') }
	late := 1000
	for _, it := range w.Items {
		typ := "new_task"
		if it.IsEpic {
			typ = "new_epic"
		}
		epic := it.Epic
		if it.FromEpic != "" {
			epic = it.FromEpic
			if epic == "-" {
				epic = ""
			}
		}
		add(s.Line(typ, synTS(it.Created), map[string]string{"id": it.ID, "epic": epic, "state": "todo", "title": it.Title, "body": ""}))
	}
	for _, it := range w.Items {
		if it.FromEpic != "" {
			late++
			add(s.Line("epic", synTS(late), map[string]string{"id": it.ID, "epic": it.Epic}))
		}
	}
	for _, it := range w.Items {
		if it.IsEpic {
			continue
		}
		if it.Claim != "" {
			late++
			add(s.Line("claim", synTS(late), map[string]string{"id": it.ID, "agent": it.Claim}))
		}
		if it.State != "todo" {
			late++
			add(s.Line("state", synTS(late), map[string]string{"id": it.ID, "state": it.State}))
		}
	}
	for _, it := range w.Items {
		for _, d := range it.Deps {
			late++
			add(s.Line("link", synTS(late), map[string]string{"from": it.ID, "to": d}))
		}
	}
	for _, it := range w.Items {
		if it.Pruned {
			late++
			add(s.Line("tombstone", synTS(late), map[string]string{"id": it.ID, "agent": ""}))
		}
	}
	return b.String()
}

// WriteStore creates a project directory holding the given log.
func WriteStore(tag, log string) string {
	d := NewScratchDir(tag)
	_ = os.MkdirAll(filepath.Join(d, ".ergo"), 0o755)
	_ = os.WriteFile(filepath.Join(d, ".ergo", "plans.jsonl"), []byte(log), 0o644)
	_ = os.WriteFile(filepath.Join(d, ".ergo", "lock"), nil, 0o644)
	return d
}

// Expected computes the model's view of a synthesized world directly from its
// description (independent of ergo): the live items with state, claimant, membership,
// edges, and the ready / blocked predicates.
func (w SynWorld) Expected() *Snapshot {
	s := &Snapshot{Items: map[string]*Item{}}
	pruned := map[string]bool{}
	for _, it := range w.Items {
		if it.Pruned {
			pruned[it.ID] = true
		}
	}
	for _, it := range w.Items {
		if it.Pruned {
			continue
		}
		x := &Item{ID: it.ID, IsEpic: it.IsEpic, EpicID: it.Epic, State: it.State, ClaimedBy: it.Claim, Title: it.Title, CreatedAt: synTS(it.Created), Deps: []string{}, RDeps: []string{}}
		if it.IsEpic {
			x.State, x.ClaimedBy = "todo", ""
		}
		if forbidsClaim(x.State) && it.State != "todo" {
			x.ClaimedBy = ""
		}
		for _, d := range it.Deps {
			if !pruned[d] {
				x.Deps = append(x.Deps, d)
			}
		}
		s.Items[it.ID] = x
	}
	Recompute(s)
	return s
}

// CalibrateSynth builds one fixed world through the CLI and through synthesis and
// compares what ergo reads ("" = identical modulo ids and timestamps).
func CalibrateSynth(s *Synth) string {
	root := NewStore("calib")
	defer RemoveAll(root)
	run := func(stdin string, args ...string) string {
		c := Cmd{Args: append([]string{"--json"}, args...), Dir: root}
		if stdin != "" {
			c.Mode, c.Stdin = StdinPipe, stdin
		}
		r := Run(c)
		var m map[string]any
		_ = StrictJSON(r.Stdout, &m)
		return asString(m["id"])
	}
	e1 := run(`{"title":"epic 0"}`, "new", "epic")
	e2 := run(`{"title":"epic 1"}`, "new", "epic")
	run("", "sequence", e1, e2)
	t1 := run(fmt.Sprintf(`{"title":"task 0","epic":%q}`, e1), "new", "task")
	t2 := run(fmt.Sprintf(`{"title":"task 1","epic":%q}`, e2), "new", "task")
	t3 := run(`{"title":"task 2"}`, "new", "task")
	t4 := run(`{"title":"task 3","state":"doing","claim":"worker"}`, "new", "task")
	run("", "sequence", t3, t4)
	run(`{"state":"done"}`, "set", t3)
	cli, err := TakeSnapshot(root)
	if err != nil {
		return err.Error()
	}
	w := SynWorld{Items: []SynItem{
		{ID: e1, IsEpic: true, State: "todo", Created: 0, Title: "epic 0"},
		{ID: e2, IsEpic: true, State: "todo", Created: 1, Title: "epic 1", Deps: []string{e1}},
		{ID: t1, Epic: e1, State: "todo", Created: 2, Title: "task 0"},
		{ID: t2, Epic: e2, State: "todo", Created: 3, Title: "task 1"},
		{ID: t3, State: "done", Created: 4, Title: "task 2"},
		{ID: t4, State: "doing", Claim: "worker", Created: 5, Title: "task 3", Deps: []string{t3}},
	}}
	sroot := WriteStore("calib-syn", s.Render(w))
	defer RemoveAll(sroot)
	syn, err := TakeSnapshot(sroot)
	if err != nil {
		return "synthesized log unreadable: " + err.Error()
	}
	d := DiffSnap(cli, syn, DiffOpts{IgnoreUpdatedAt: true, IgnoreClaimedAt: true, IgnoreCreatedAt: true, IgnoreUUID: true, IgnoreOrder: true})
	if len(d) > 0 {
		return strings.Join(d, "; ")
	}
	exp := w.Expected()
	for id, e := range exp.Items {
		g := syn.Items[id]
		if e.IsEpic && g != nil {
			continue
		}
		if g == nil || g.Ready != e.Ready || g.Blocked != e.Blocked || g.State != e.State {
			return fmt.Sprintf("model of the calibration world disagrees with ergo on %s: model %+v, ergo %+v", id, e, g)
		}
	}
	return ""
}

package props

import (
	"encoding/json"
	"fmt"
	"os"
	"strings"
	"testing"
	"time"

	"pgregory.net/rapid"
)

// C13: readers never fail or see garbage while writers are active.

const everyStoreCall = "openat,flock,read,pread64,write,pwrite64,fsync,fdatasync,rename,renameat,renameat2,unlink,unlinkat,ftruncate,link,linkat"

type readObs struct {
	Where string   `json:"where"`
	Args  []string `json:"args"`
	Exit  int      `json:"exit"`
	Out   string   `json:"stdout"`
	Err   string   `json:"stderr"`
}

// C13Case is the replay format.
type C13Case struct {
	Property   string      `json:"property"`
	Engine     string      `json:"engine"`
	Test       string      `json:"test"`
	Setup      []Op        `json:"setup"`
	TornTail   int         `json:"torn_tail,omitempty"` // bytes of a fragment appended to the log before the experiment
	BigBody    int         `json:"big_body,omitempty"`
	Writer     Op          `json:"writer"`
	Writer2    *Op         `json:"writer2,omitempty"` // mode B: a second command that runs while the reader is stopped
	Legacy     bool        `json:"legacy_name,omitempty"`
	Mode       string      `json:"mode"` // "writer-stepped" | "reader-parked" | "writer-overtaken"
	WriterPark *Inject     `json:"writer_park,omitempty"` // mode C: where the first writer is stopped before its lock
	Symlink    bool        `json:"log_is_a_symlink,omitempty"`
	StaleTmp   int         `json:"stale_tmp,omitempty"` // see SchedCase.StaleTmp
	ReaderPark *Inject     `json:"reader_park,omitempty"`
	Violations []Violation `json:"violations,omitempty"`
	Observed   []readObs   `json:"observed,omitempty"`
}

func readerCmds(pre *Snapshot) [][]string {
	cmds := [][]string{{"--json", "list", "--all"}, {"--json", "list", "--epics"}, {"list", "--all"}}
	ids := pre.SortedIDs()
	if len(ids) > 0 {
		cmds = append(cmds, []string{"--json", "show", ids[0]}, []string{"--json", "show", ids[len(ids)-1]})
	}
	for _, it := range pre.Tasks() {
		if it.EpicID != "" && pre.Items[it.EpicID] != nil {
			cmds = append(cmds, []string{"--json", "show", it.EpicID})
			break
		}
	}
	return cmds
}

// candidateLogs lists the log contents a reader is entitled to see: the log before the
// writer, and the log after each whole number of the writer's events (for rewrites: the
// old and the new file).
func candidateLogs(before, after []byte) [][]byte {
	cands := [][]byte{before}
	base := before
	if !strings.HasPrefix(string(after), string(base)) {
		base = cleanLog(before)
		cands = append(cands, base)
	}
	if strings.HasPrefix(string(after), string(base)) {
		lines, _ := LogLines(after[len(base):])
		cur := string(base)
		for _, l := range lines {
			cur += l + "\n"
			cands = append(cands, []byte(cur))
		}
	}
	cands = append(cands, after)
	return cands
}

// allowedOutputs runs each reader command on the store with each candidate log.
func allowedOutputs(root string, cands [][]byte, cmds [][]string) map[string]map[string]bool {
	path := LogPath(root)
	saved, _ := os.ReadFile(path)
	defer os.WriteFile(path, saved, 0o644)
	out := map[string]map[string]bool{}
	for _, c := range cmds {
		key := strings.Join(c, " ")
		out[key] = map[string]bool{}
		for _, log := range cands {
			_ = os.WriteFile(path, log, 0o644)
			r := Run(Cmd{Args: c, Dir: root})
			// a read may legitimately fail in one of the states the store passed through
			// (show of an id the writer prunes); then exactly that failure is allowed - but
			// only for `show`, and only on a log whose lists can be read (a log that nothing
			// can read is not a state of the store, whoever left it there)
			if !r.OK() {
				isShow := false
				for _, a := range c {
					isShow = isShow || a == "show"
				}
				if !isShow || !Run(Cmd{Args: []string{"--json", "list", "--all"}, Dir: root}).OK() {
					continue
				}
			}
			out[key][fmt.Sprintf("%d|%s", r.Code, r.Stdout)] = true
		}
	}
	return out
}

func judgeReads(obs []readObs, allowed map[string]map[string]bool) []Violation {
	var v []Violation
	for _, o := range obs {
		key := strings.Join(o.Args, " ")
		got := fmt.Sprintf("%d|%s", o.Exit, o.Out)
		switch {
		case allowed[key][got]:
		case o.Exit != 0:
			v = append(v, Violation{"C13", fmt.Sprintf("`%s` failed (%d) %s, although it succeeds in every state the store passed through: %s", key, o.Exit, o.Where, clip(o.Err, 200))})
		default:
			v = append(v, Violation{"C13", fmt.Sprintf("`%s` %s printed a state the store never passed through: %s", key, o.Where, clip(o.Out, 300))})
		}
		if len(v) >= 3 {
			break
		}
	}
	return v
}

// writerStepped parks the writer after every system call it makes on the store's files
// and runs all readers at each stop.
func writerStepped(w *World, pre *Snapshot, writer Op) (obs []readObs, viol []Violation, parks int, skipped string) {
	cmds := readerCmds(pre)
	before := ReadLog(w.Root)
	w.writeFiles(writer.Files)
	p, err := StartParked(w.Build(writer), w.Root, &Inject{Syscall: everyStoreCall, Kind: "stop"})
	if err != nil {
		return nil, nil, 0, "cannot start the writer: " + err.Error()
	}
	defer p.Close()
	for step := 0; step < 200; step++ {
		exited, timedOut := p.WaitParkedOrExit(hangLimit)
		if exited {
			break
		}
		if timedOut {
			p.Kill()
			return nil, nil, parks, "writer neither parked nor exited"
		}
		parks++
		calls := p.calls()
		where := "at start"
		if len(calls) > 0 {
			where = fmt.Sprintf("while the writer is stopped after call %d %s", len(calls), calls[len(calls)-1].String())
		}
		for _, c := range cmds {
			r := Run(Cmd{Args: c, Dir: w.Root})
			obs = append(obs, readObs{where, c, r.Code, r.Stdout, r.Stderr})
		}
		p.Resume()
	}
	res := p.result()
	if !res.OK() {
		return obs, nil, parks, "writer failed: " + clip(res.Stderr, 100)
	}
	after := ReadLog(w.Root)
	allowed := allowedOutputs(w.Root, candidateLogs(before, after), cmds)
	return obs, judgeReads(obs, allowed), parks, ""
}

// readerParked parks one reader after a chosen call, lets the writer run to completion,
// then resumes the reader.
func readerParked(w *World, pre *Snapshot, writer Op, writer2 *Op, park Inject) (obs []readObs, viol []Violation, skipped string) {
	cmds := readerCmds(pre)
	before := ReadLog(w.Root)
	for _, c := range cmds {
		trial := w.At(CloneStore(w.Root, "c13b"))
		trial.writeFiles(writer.Files)
		p, err := StartParked(Cmd{Args: c, Dir: trial.Root}, trial.Root, &park)
		if err != nil {
			RemoveAll(trial.Root)
			return nil, nil, "cannot start reader"
		}
		exited, _ := p.WaitParkedOrExit(hangLimit)
		wr := Run(trial.Build(writer))
		logAfterWriter := ReadLog(trial.Root)
		if writer2 != nil {
			trial.writeFiles(writer2.Files)
			Run(trial.Build(*writer2))
		}
		var res Res
		if exited {
			res = p.result()
		} else {
			r, _, hung := p.Finish(hangLimit)
			res = r
			if hung {
				res.Code, res.Stderr = -1, "reader did not finish"
			}
		}
		p.Close()
		after := ReadLog(trial.Root)
		if wr.OK() && writer2 == nil {
			// the reader is read-only: whatever it did while stopped and resumed, the log must
			// be what the writer left (an acknowledged write erased by a reader is worse than
			// a wrong read)
			if cur, want := string(after), string(logAfterWriter); want != "" && cur != want {
				viol = append(viol, Violation{"C13", fmt.Sprintf("after the stopped reader `%s` went on, the log is no longer what the acknowledged writer left (%d -> %d bytes)", strings.Join(c, " "), len(want), len(cur))})
			}
		}
		o := readObs{fmt.Sprintf("(reader stopped after %s #%d while `%s` ran, exit %d)", park.Syscall, park.When, strings.Join(trial.Build(writer).Args, " "), wr.Code), c, res.Code, res.Stdout, res.Stderr}
		// outputs mention the store path (file urls): normalise the trial root to the main root
		o.Out = strings.ReplaceAll(o.Out, trial.Root, w.Root)
		obs = append(obs, o)
		allowed := allowedOutputs(trial.Root, candidateLogs(before, after), [][]string{c})
		norm := map[string]map[string]bool{}
		for k, m := range allowed {
			norm[k] = map[string]bool{}
			for s := range m {
				norm[k][strings.ReplaceAll(s, trial.Root, w.Root)] = true
			}
			_ = k
		}
		viol = append(viol, judgeReads([]readObs{o}, norm)...)
		RemoveAll(trial.Root)
		if len(viol) > 0 {
			return
		}
	}
	return
}

// writerOvertaken stops writer a at a point before it takes the lock (whatever it has read
// by then is stale), lets writer b run to completion and readers look at the result, then
// lets a go on. a is a command that changes no existing item (compact, plan, new task / epic
// outside any epic), so every existing item must read byte for byte as it did after b -
// anything else is a state the store never passed through (b's acknowledged work dropped, or
// an old log mixed with a new one). For compact the whole store must read the same.
func writerOvertaken(w *World, pre *Snapshot, a, b Op, park Inject) (obs []readObs, viol []Violation, skipped string) {
	cmds := readerCmds(pre)
	if b.Target != nil {
		if id := w.Resolve(*b.Target); id != "" {
			cmds = append(cmds, []string{"--json", "show", id})
		}
	}
	w.writeFiles(a.Files)
	p, err := StartParked(w.Build(a), w.Root, &park)
	if err != nil {
		return nil, nil, "cannot start the writer: " + err.Error()
	}
	defer p.Close()
	exited, timedOut := p.WaitParkedOrExit(hangLimit)
	if exited || timedOut {
		if timedOut {
			p.Kill()
		}
		return nil, nil, "first writer was not stopped"
	}
	if holdsLock(p.calls()) {
		p.Finish(hangLimit)
		return nil, nil, "first writer already holds the lock"
	}
	w.writeFiles(b.Files)
	rb := Run(w.Build(b))
	if !rb.OK() {
		p.Finish(hangLimit)
		return nil, nil, "second writer failed: " + clip(rb.Stderr, 80)
	}
	read := func(where string) []readObs {
		var out []readObs
		for _, c := range cmds {
			if a.Kind != "compact" && !(len(c) > 1 && c[1] == "show") {
				continue // the first writer adds items: lists legitimately change
			}
			r := Run(Cmd{Args: c, Dir: w.Root})
			out = append(out, readObs{where, c, r.Code, r.Stdout, r.Stderr})
		}
		return out
	}
	where1 := fmt.Sprintf("after `%s` was acknowledged, while `%s` is stopped after %s #%d (before it takes the lock)", strings.Join(w.Build(b).Args, " "), strings.Join(w.Build(a).Args, " "), park.Syscall, park.When)
	r1 := read(where1)
	ra, _, hung := p.Finish(hangLimit)
	if hung {
		return r1, nil, "first writer did not finish"
	}
	where2 := fmt.Sprintf("after the stopped `%s` went on (exit %d)", strings.Join(w.Build(a).Args, " "), ra.Code)
	r2 := read(where2)
	obs = append(r1, r2...)
	for i := range r1 {
		key := strings.Join(r1[i].Args, " ")
		if r1[i].Exit != 0 {
			// only `show` of an id that the second writer pruned may fail
			continue
		}
		switch {
		case r2[i].Exit != 0:
			viol = append(viol, Violation{"C13", fmt.Sprintf("`%s` fails %s although it succeeded before and nothing it shows was touched since: %s", key, where2, clip(r2[i].Err, 200))})
		case r2[i].Out != r1[i].Out:
			viol = append(viol, Violation{"C13", fmt.Sprintf("`%s` %s no longer shows what it showed %s - a state the store never passed through: %s", key, where2, where1, clip(diffHint(r1[i].Out, r2[i].Out), 300))})
		}
		if len(viol) >= 3 {
			break
		}
	}
	return
}

func genWriterOp(t *rapid.T, w *World, pre *Snapshot) Op {
	if pct(t, 55, "writer.multi") {
		return genMultiEventOp(t, w, pre)
	}
	return genOp(t, w, pre, Profile{Name: "writer", Weights: map[string]int{"new_task": 30, "new_epic": 8, "set": 30, "claim": 8, "sequence": 8, "plan": 8, "compact": 10, "prune_yes": 6}, Results: 6})
}

func setupC13(w *World, setup []Op, torn, big int, legacy bool) (*Snapshot, bool) {
	pre, err := TakeSnapshot(w.Root)
	if err != nil {
		return nil, false
	}
	for _, op := range setup {
		out := w.Step(pre, op)
		if out.Post == nil || out.Abort != "" || len(out.Viol) > 0 {
			return nil, false
		}
		pre = out.Post
	}
	if big > 0 {
		r := Run(Cmd{Args: []string{"--json", "new", "task"}, Mode: StdinPipe, Stdin: fmt.Sprintf(`{"title":"big one","body":%q}`, bigBody(big)), Dir: w.Root})
		if !r.OK() {
			return nil, false
		}
		pre, _ = TakeSnapshot(w.Root)
		for id := range pre.Items {
			if !w.Seen[id] {
				w.AddID(id, 900)
			}
		}
	}
	if legacy {
		schedPre{Legacy: true}.apply(w.Root)
	}
	if b := ReadLog(w.Root); torn > 0 && (len(b) == 0 || b[len(b)-1] == '\n') {
		frag := `{"type":"state","ts":"2026-01-01T00:00:00Z","data":{"id":"ZZZZZZ","state":"do` + bigBody(torn)
		f, _ := os.OpenFile(LogPath(w.Root), os.O_APPEND|os.O_WRONLY, 0o644)
		f.WriteString(frag)
		f.Close()
	}
	return pre, pre != nil
}

func TestC13(t *testing.T) {
	if err := StraceAvailable(); err != nil {
		t.Skipf("INFRA: %v", err)
	}
	if os.Getenv("VERIF_MINIMIZE_IN") != "" {
		return
	}
	if p := os.Getenv("VERIF_REPLAY_IN"); p != "" {
		b, _ := os.ReadFile(p)
		var cc C13Case
		if err := json.Unmarshal(b, &cc); err != nil {
			t.Fatal(err)
		}
		for rep := 0; rep < 3; rep++ {
			w := NewWorld("c13-replay")
			pre, ok := setupC13(w, cc.Setup, cc.TornTail, cc.BigBody, cc.Legacy)
			if !ok {
				w.Close()
				t.Fatalf("setup failed")
			}
			if cc.Symlink {
				schedPre{SymlinkLog: true}.apply(w.Root)
			}
			schedPre{StaleTmp: cc.StaleTmp}.apply(w.Root)
			var viol []Violation
			if cc.Mode == "writer-overtaken" {
				_, viol, _ = writerOvertaken(w, pre, cc.Writer, *cc.Writer2, *cc.WriterPark)
			} else if cc.Mode == "reader-parked" {
				_, viol, _ = readerParked(w, pre, cc.Writer, cc.Writer2, *cc.ReaderPark)
			} else {
				_, viol, _, _ = writerStepped(w, pre, cc.Writer)
			}
			w.Close()
			if len(viol) > 0 {
				t.Fatalf("REPLAY-VIOLATION C13: %v", viol)
			}
		}
		return
	}
	stats := NewStats("C13", "SCHED/readers-vs-writer", "a generated store (optionally with a torn tail and / or a log larger than the reader's 64 KiB buffer) and a generated writer (any mutating command incl. compact and plan); mode A: the writer is stopped after every system call it makes on the store's files (strace SIGSTOP on each call) and at every stop list --json --all, list --json --epics, human list --all and show --json of two ids are run; mode B: each reader is stopped after a drawn one of its own calls (open, first read, ...), the writer runs to completion, the reader is resumed; oracle: every read exits 0 and prints byte-for-byte what the same command prints on the log before the writer or after some whole number of the writer's events (for rewrites: old or new file); non-trivial = a read ran while the writer was between its first and last mutating call or between temp-file creation and rename (mode A) or the reader was parked across the writer (mode B); distinct = (writer shape, mode, park point)")
	defer stats.Flush()
	deadline := budgetDeadline()
	replayPath := ReplayOutPath("C13")
	rapid.Check(t, func(rt *rapid.T) {
		if !deadline.IsZero() && time.Now().After(deadline) {
			stats.Shortfall = "wall-clock guard reached before all requested cases ran"
			return
		}
		w := NewWorld("C13")
		defer w.Close()
		var setup []Op
		pre, _ := TakeSnapshot(w.Root)
		nsetup := between(rt, 2, 8, "setup.n")
		for i := 0; i < nsetup; i++ {
			op := genOp(rt, w, pre, setupProfile)
			op.N = i
			out := w.Step(pre, op)
			if out.Post == nil || out.Abort != "" || len(out.Viol) > 0 {
				stats.Abort("setup history hit a violation of another property")
				return
			}
			setup = append(setup, op)
			pre = out.Post
		}
		torn, big := 0, 0
		if pct(rt, 20, "big") {
			big = between(rt, 66000, 140000, "big.size")
		}
		if pct(rt, 25, "torn") {
			torn = between(rt, 1, 60, "torn.size")
			if big > 0 && pct(rt, 50, "torn.big") {
				torn = oneOf(rt, []int{2000, 30000, 65000, 66000, 70000, 140000}, "torn.bigsize")
			}
		}
		legacy := pct(rt, 15, "legacy")
		if big > 0 || torn > 0 || legacy {
			w2 := NewWorld("C13b")
			w.Close()
			*w = *w2
			var ok bool
			pre, ok = setupC13(w, setup, torn, big, legacy)
			if !ok {
				stats.Abort("setup replay failed")
				return
			}
		}
		symlink := pct(rt, 8, "symlink")
		if symlink {
			schedPre{SymlinkLog: true}.apply(w.Root)
			stats.Label("pre.log_is_a_symlink")
		}
		staleTmp := 0
		if pct(rt, 10, "stale.tmp") {
			// what a rewrite killed before its rename left behind: longer than anything the
			// next rewrite will produce
			staleTmp = 2 + uni(rt, 2, "stale.tmp.kind")
			schedPre{StaleTmp: staleTmp}.apply(w.Root)
			stats.Label("pre.stale_temp_file")
		}
		writer := genWriterOp(rt, w, pre)
		if staleTmp > 0 && pct(rt, 70, "stale.rewrite") {
			writer = oneOf(rt, []Op{{Kind: "compact"}, {Kind: "plan", Plan: genRichPlan(rt, w)}}, "stale.writer")
		}
		if symlink && pct(rt, 60, "symlink.rewrite") {
			writer = oneOf(rt, []Op{{Kind: "compact"}, {Kind: "plan", Plan: genRichPlan(rt, w)}}, "symlink.writer")
		}
		writer.N = 500
		w.writeFiles(writer.Files) // the model looks at the files a result names
		if w.Predict(pre, writer).Decision == MustReject {
			stats.Label("writer.rejected_by_model")
			stats.Eval()
			return
		}
		mode := oneOf(rt, []string{"writer-stepped", "writer-stepped", "reader-parked", "writer-overtaken"}, "mode")
		if mode == "writer-overtaken" {
			a := Op{Kind: "compact", N: 500}
			switch uni(rt, 4, "overtaken.a") {
			case 0:
				a = Op{Kind: "plan", N: 500, Plan: genRichPlan(rt, w)}
			case 1:
				a = Op{Kind: "new_task", N: 500, Mode: "json", Title: sp(w.UniqueTitle("late"))}
			}
			var b Op
			ids := pre.SortedIDs()
			if len(ids) > 0 && pct(rt, 75, "overtaken.b.set") {
				g := refGen{rt, w, pre}
				ref := g.ref(ids[uni(rt, len(ids), "overtaken.b.target")])
				b = Op{Kind: "set", N: 501, Mode: "json", Target: &ref, Title: sp(w.UniqueTitle("retitled meanwhile")), Agent: "a1"}
			} else {
				b = Op{Kind: "new_task", N: 501, Mode: "json", Title: sp(w.UniqueTitle("meanwhile"))}
			}
			pts, lastAcq, _ := w.parkCandidatesGap(a)
			if lastAcq <= 0 {
				stats.Label("skipped")
				stats.Eval()
				return
			}
			park := pts[uni(rt, lastAcq, "overtaken.at")]
			cc := C13Case{Property: "C13", Engine: "SCHED", Test: "TestC13", Setup: setup, TornTail: torn, BigBody: big, Writer: a, Writer2: &b, Mode: mode, Legacy: legacy, WriterPark: &park, Symlink: symlink, StaleTmp: staleTmp}
			obs, viol, skipped := writerOvertaken(w, pre, a, b, park)
			if skipped != "" {
				stats.Label("skipped.overtaken: " + skipped)
			} else {
				stats.NonTrivial(fmt.Sprintf("%s/C/%s#%d/torn=%v/big=%v", a.Kind, park.Syscall, park.When, torn > 0, big > 0))
			}
			stats.Label("mode.writer_overtaken")
			if len(viol) > 0 {
				cc.Violations = viol
				cc.Observed = obs
				WriteReplay(replayPath, cc)
				rt.Fatalf("C13 violated: %v", viol)
			}
			stats.Eval()
			stats.Sample(len(obs), map[string]any{"first_writer": strings.Join(w.Build(a).Args, " "), "second_writer": strings.Join(w.Build(b).Args, " "), "mode": mode, "writer_park": park, "torn_tail_bytes": torn, "big_body_bytes": big, "reads": len(obs)})
			return
		}
		if torn > 0 && pct(rt, 50, "torn.readerparked") {
			mode = "reader-parked" // a reader that has consumed the fragment while a writer repairs it
		}
		cc := C13Case{Property: "C13", Engine: "SCHED", Test: "TestC13", Setup: setup, TornTail: torn, BigBody: big, Writer: writer, Mode: mode, Legacy: legacy, Symlink: symlink, StaleTmp: staleTmp}
		if legacy {
			stats.Label("pre.legacy_file_name")
			if pct(rt, 50, "legacy.compact") {
				writer = Op{Kind: "compact", N: 500}
				cc.Writer = writer
			}
		}
		var viol []Violation
		var obs []readObs
		sig := fmt.Sprintf("%s/%s/torn=%v/big=%v", writer.Kind, fieldSig(writer), torn > 0, big > 0)
		if mode == "reader-parked" {
			park := oneOf(rt, []Inject{{"openat", 1, "stop", ""}, {"read", 1, "stop", ""}, {"read", 2, "stop", ""}, {"read", 2, "stop", ""}, {"read", 3, "stop", ""}, {"newfstatat", 1, "stop", ""}, {"newfstatat", 2, "stop", ""}, {"newfstatat", 3, "stop", ""}, {"openat", 2, "stop", ""}}, "reader.park")
			cc.ReaderPark = &park
			// half of the time two commands run while the reader is stopped - if possible one
			// on an epic and one on a child of it (a reader that loads the log twice mixes them)
			if pct(rt, 50, "two.writers") {
				var w2 Op
				done := false
				for _, it := range pre.Tasks() {
					if ep := pre.Items[it.EpicID]; ep != nil && pct(rt, 70, "pair.epic") {
						g := refGen{rt, w, pre}
						re, rc := g.ref(ep.ID), g.ref(it.ID)
						writer = Op{N: 500, Kind: "set", Mode: "json", Target: &re, Title: sp(w.UniqueTitle("epic retitled"))}
						st := "done"
						if !transitionTable[it.State]["done"] {
							st = "todo"
						}
						w2 = Op{N: 501, Kind: "set", Mode: "json", Target: &rc, State: &st, Agent: "a1"}
						done = true
						break
					}
				}
				if !done {
					w2 = genWriterOp(rt, w, pre)
					w2.N = 501
				}
				cc.Writer, cc.Writer2 = writer, &w2
			}
			var skipped string
			obs, viol, skipped = readerParked(w, pre, writer, cc.Writer2, park)
			if skipped != "" {
				stats.Label("skipped")
			}
			stats.NonTrivial(sig + fmt.Sprintf("/B/%s#%d", park.Syscall, park.When))
			stats.EvalN(len(obs)) // one execution per stopped reader
			stats.Label("mode.reader_parked")
		} else {
			var parks int
			var skipped string
			obs, viol, parks, skipped = writerStepped(w, pre, writer)
			if skipped != "" {
				stats.Label("writer.failed_or_skipped")
			} else {
				stats.EvalN(parks) // every stop of the writer with its reads is an execution
				stats.LabelN("writer_stops", parks)
				stats.LabelN("reads_during_writes", len(obs))
				for i := 0; i < parks; i++ {
					stats.NonTrivial(fmt.Sprintf("%s/A/stop%d", sig, i))
				}
			}
			stats.Label("mode.writer_stepped")
		}
		if len(viol) > 0 {
			cc.Violations = viol
			if len(obs) > 6 {
				obs = obs[len(obs)-6:]
			}
			cc.Observed = obs
			WriteReplay(replayPath, cc)
			rt.Fatalf("C13 violated: %v", viol)
		}
		stats.Eval()
		if torn > 0 {
			stats.Label("pre.torn_tail")
		}
		if big > 0 {
			stats.Label("pre.log_over_64KiB")
		}
		stats.Sample(len(obs), map[string]any{"writer": strings.Join(w.Build(writer).Args, " "), "mode": mode, "reader_park": cc.ReaderPark, "torn_tail_bytes": torn, "big_body_bytes": big, "reads": len(obs)})
	})
}

// TestC03Conc: after a crash that left a torn tail, readers and a writer meet. A reader is
// stopped at a drawn call (it may already have looked at the fragment), a writer runs to
// completion and is acknowledged, the reader goes on. Whatever the reader does about the
// fragment, the acknowledged write must still be there: the log must be byte for byte what
// the writer left, and the store must read as it did right after the writer.
func TestC03Conc(t *testing.T) {
	if err := StraceAvailable(); err != nil {
		t.Skipf("INFRA: %v", err)
	}
	if os.Getenv("VERIF_MINIMIZE_IN") != "" {
		return
	}
	run := func(w *World, pre *Snapshot, writer Op, park Inject) (viol []Violation, landed int) {
		for _, c := range readerCmds(pre) {
			trial := w.At(CloneStore(w.Root, "c03c"))
			trial.writeFiles(writer.Files)
			p, err := StartParked(Cmd{Args: c, Dir: trial.Root}, trial.Root, &park)
			if err != nil {
				RemoveAll(trial.Root)
				return nil, landed
			}
			exited, _ := p.WaitParkedOrExit(hangLimit)
			wr := Run(trial.Build(writer))
			logAfterWriter := ReadLog(trial.Root)
			snapW, errW := TakeSnapshot(trial.Root)
			if !exited {
				landed++
				p.Finish(hangLimit)
			}
			p.Close()
			if wr.OK() && errW == nil {
				if cur := ReadLog(trial.Root); string(cur) != string(logAfterWriter) {
					viol = append(viol, Violation{"C03", fmt.Sprintf("a crash left a torn tail; `%s` was then acknowledged while the reader `%s` was stopped after %s #%d; after the reader went on the log is no longer what the writer left (%d -> %d bytes)", strings.Join(trial.Build(writer).Args, " "), strings.Join(c, " "), park.Syscall, park.When, len(logAfterWriter), len(cur))})
				}
				if snapR, err := TakeSnapshot(trial.Root); err != nil {
					viol = append(viol, Violation{"C03", "store unreadable after a reader and a writer met on a torn tail: " + err.Error()})
				} else if d := DiffSnap(snapW, snapR, DiffOpts{}); len(d) > 0 {
					viol = append(viol, Violation{"C03", fmt.Sprintf("acknowledged work changed or vanished after the stopped reader `%s` went on: %s", strings.Join(c, " "), clip(strings.Join(d, "; "), 400))})
				}
			}
			RemoveAll(trial.Root)
			if len(viol) > 0 {
				return
			}
		}
		return
	}
	if p := os.Getenv("VERIF_REPLAY_IN"); p != "" {
		b, _ := os.ReadFile(p)
		var cc C13Case
		if err := json.Unmarshal(b, &cc); err != nil || cc.ReaderPark == nil {
			t.Fatal("bad replay file")
		}
		for rep := 0; rep < 3; rep++ {
			w := NewWorld("c03c-replay")
			pre, ok := setupC13(w, cc.Setup, cc.TornTail, cc.BigBody, cc.Legacy)
			if !ok {
				w.Close()
				t.Fatalf("setup failed")
			}
			viol, _ := run(w, pre, cc.Writer, *cc.ReaderPark)
			w.Close()
			if len(viol) > 0 {
				t.Fatalf("REPLAY-VIOLATION C03: %v", viol)
			}
		}
		return
	}
	stats := NewStats("C03", "SCHED/torn-tail-reader-vs-writer", "a generated store whose log ends in an unparsable fragment (1-60 bytes, or 2-140 KB behind a log larger than 64 KiB) - the residue of a crash -, a generated writer (any mutating command) and each of the usual read commands stopped after a drawn one of its calls (open, stat, first / second / third read) while the writer runs to completion; the reader is then resumed; oracle: the log is byte for byte what the acknowledged writer left and the store reads as it did right after the writer; non-trivial = the reader was really stopped across the writer; distinct = (writer shape, park point, size class)")
	defer stats.Flush()
	deadline := budgetDeadline()
	replayPath := ReplayOutPath("C03")
	rapid.Check(t, func(rt *rapid.T) {
		if !deadline.IsZero() && time.Now().After(deadline) {
			stats.Shortfall = "wall-clock guard reached before all requested cases ran"
			return
		}
		w := NewWorld("C03c")
		defer func() { w.Close() }()
		var setup []Op
		pre, _ := TakeSnapshot(w.Root)
		for i, n := 0, between(rt, 2, 8, "setup.n"); i < n; i++ {
			op := genOp(rt, w, pre, setupProfile)
			op.N = i
			out := w.Step(pre, op)
			if out.Post == nil || out.Abort != "" || len(out.Viol) > 0 {
				stats.Abort("setup history hit a violation of another property")
				return
			}
			setup = append(setup, op)
			pre = out.Post
		}
		big := 0
		torn := between(rt, 1, 60, "torn.size")
		if pct(rt, 25, "big") {
			big = between(rt, 66000, 140000, "big.size")
			if pct(rt, 50, "torn.big") {
				torn = oneOf(rt, []int{2000, 30000, 65000, 66000, 70000, 140000}, "torn.bigsize")
			}
		}
		legacy := pct(rt, 12, "legacy")
		w2 := NewWorld("C03d")
		w.Close()
		w = w2
		pre, ok := setupC13(w, setup, torn, big, legacy)
		if !ok {
			stats.Abort("setup replay failed")
			return
		}
		writer := genWriterOp(rt, w, pre)
		writer.N = 500
		w.writeFiles(writer.Files) // the model looks at the files a result names
		if w.Predict(pre, writer).Decision == MustReject {
			stats.Label("writer.rejected_by_model")
			stats.Eval()
			return
		}
		park := oneOf(rt, []Inject{{"openat", 1, "stop", ""}, {"read", 1, "stop", ""}, {"read", 2, "stop", ""}, {"read", 3, "stop", ""}, {"newfstatat", 1, "stop", ""}, {"newfstatat", 2, "stop", ""}, {"newfstatat", 3, "stop", ""}, {"openat", 2, "stop", ""}, {"openat", 3, "stop", ""}}, "reader.park")
		viol, landed := run(w, pre, writer, park)
		if len(viol) > 0 {
			WriteReplay(replayPath, C13Case{Property: "C03", Engine: "SCHED", Test: "TestC03Conc", Setup: setup, TornTail: torn, BigBody: big, Writer: writer, Mode: "reader-parked", Legacy: legacy, ReaderPark: &park, Violations: viol})
			rt.Fatalf("C03 violated: %v", viol)
		}
		stats.Eval()
		stats.EvalN(landed)
		stats.LabelN("readers_stopped_across_the_writer", landed)
		if landed > 0 {
			stats.NonTrivial(fmt.Sprintf("%s/%s/%s#%d/big=%v/tornbig=%v", writer.Kind, fieldSig(writer), park.Syscall, park.When, big > 0, torn > 1000))
		}
		stats.Label("cmd." + writer.Kind)
		stats.Sample(landed, map[string]any{"writer": strings.Join(w.Build(writer).Args, " "), "reader_park": park, "torn_tail_bytes": torn, "big_body_bytes": big, "readers_stopped": landed})
	})
}

package props

import (
	"encoding/json"
	"fmt"
	"strings"
	"testing"

	"pgregory.net/rapid"
)

var planTitleParts = []string{"build", "Build", "BUILD", " build", "build ", "tëst", "テスト", "🚀 ship", "a\tb", "line\nbreak", `q"uote`, `back\slash`, "<b>&amp;", "x", "après", "ＦＵＬＬ"}

// genRichPlan builds a valid plan with up to 15 tasks whose titles include pairs that
// differ only in case or surrounding white space.
func genRichPlan(t *rapid.T, w *World) *PlanDoc {
	n := between(t, 1, 15, "plan.n")
	d := &PlanDoc{Title: sp(genTitle(t, w, "plan.title"))}
	if pct(t, 50, "plan.body") {
		d.Body = sp(genBody(t, "plan.bodytext"))
	}
	used := map[string]bool{}
	var titles []string
	for i := 0; i < n; i++ {
		var title string
		for tries := 0; ; tries++ {
			title = oneOf(t, planTitleParts, fmt.Sprintf("plan.t%d.%d", i, tries))
			if pct(t, 60, "plan.suffix") || used[title] || tries > 2 {
				title = fmt.Sprintf("%s #%d", title, w.seq+i+1)
			}
			if !used[title] {
				break
			}
		}
		used[title] = true
		titles = append(titles, title)
	}
	w.seq += n
	order := rapid.Permutation(seqInts(n)).Draw(t, "plan.order")
	pos := make([]int, n)
	for p, i := range order {
		pos[i] = p
	}
	density := oneOf(t, []int{10, 25, 50}, "plan.density")
	for i := 0; i < n; i++ {
		pt := PlanTask{Title: sp(titles[i])}
		if pct(t, 40, "plan.tbody") {
			pt.Body = sp(genBody(t, "plan.tbodytext"))
		}
		for j := 0; j < n; j++ {
			if pos[j] < pos[i] && pct(t, density, "plan.edge") {
				pt.After = append(pt.After, titles[j])
				if pct(t, 12, "plan.dupedge") {
					pt.After = append(pt.After, titles[j])
				}
			}
		}
		d.Tasks = append(d.Tasks, pt)
	}
	return d
}

// damageRichPlan makes the document invalid by one targeted edit.
func damageRichPlan(t *rapid.T, op *Op) string {
	d := op.Plan
	n := len(d.Tasks)
	raw := func(v any) {
		b, _ := json.Marshal(v)
		s := string(b)
		op.Raw = &s
	}
	asMap := func() map[string]any {
		b, _ := json.Marshal(d)
		var m map[string]any
		_ = json.Unmarshal(b, &m)
		return m
	}
	k := uni(t, 26, "plan.damage")
	switch k {
	case 24, 25:
		// a title or body of nothing but white space that is not ASCII
		ws := oneOf(t, []string{"\u00a0", "\u3000", "\u2003\u2003", "\u00a0 \u3000", "\u2028"}, "uws.which")
		i := uni(t, n, "uws.i")
		if pct(t, 50, "uws.body") {
			d.Tasks[i].Body = sp(ws)
			return "task body of non-ASCII white space only"
		}
		if pct(t, 30, "uws.epic") {
			d.Title = sp(ws)
			return "epic title of non-ASCII white space only"
		}
		d.Tasks[i].Title = sp(ws)
		d.Tasks[i].After = nil
		for j := range d.Tasks {
			if j != i {
				var keep []string
				for _, a := range d.Tasks[j].After {
					if a != ws {
						keep = append(keep, a)
					}
				}
				d.Tasks[j].After = keep
			}
		}
		return "task title of non-ASCII white space only"
	case 22, 23:
		// an after entry that differs from a title only by surrounding white space or by
		// case names no task of the document
		if n >= 2 {
			i := 1 + uni(t, n-1, "near.i")
			j := uni(t, i, "near.j")
			ref := *d.Tasks[j].Title
			near := oneOf(t, []string{ref + " ", " " + ref, ref + "\t", strings.ToUpper(ref), ref + "\u00a0"}, "near.how")
			if near != ref {
				taken := false
				for _, x := range d.Tasks {
					taken = taken || (x.Title != nil && *x.Title == near)
				}
				if !taken {
					d.Tasks[i].After = append(d.Tasks[i].After, near)
					return "after entry that is only nearly a title"
				}
			}
		}
		d.Tasks[0].After = append(d.Tasks[0].After, "no such task at all")
		return "dangling after"
	case 0:
		if n >= 2 {
			i := uni(t, n-1, "dup.i")
			d.Tasks[n-1].Title = sp(*d.Tasks[i].Title)
		} else {
			d.Tasks = append(d.Tasks, PlanTask{Title: sp(*d.Tasks[0].Title)})
		}
		return "duplicate title"
	case 1:
		i := uni(t, n, "dangling.i")
		d.Tasks[i].After = append(d.Tasks[i].After, "no such task "+*d.Tasks[i].Title)
		return "dangling after"
	case 2:
		i := uni(t, n, "self.i")
		d.Tasks[i].After = append(d.Tasks[i].After, *d.Tasks[i].Title)
		return "self after"
	case 3:
		// close a cycle along an existing path or between two tasks
		if n >= 2 {
			i := uni(t, n, "cyc.i")
			j := (i + 1 + uni(t, n-1, "cyc.j")) % n
			d.Tasks[i].After = append(d.Tasks[i].After, *d.Tasks[j].Title)
			d.Tasks[j].After = append(d.Tasks[j].After, *d.Tasks[i].Title)
			return "2-cycle"
		}
		d.Tasks[0].After = []string{*d.Tasks[0].Title}
		return "self after"
	case 4:
		if n >= 3 {
			d.Tasks[0].After = append(d.Tasks[0].After, *d.Tasks[1].Title)
			d.Tasks[1].After = append(d.Tasks[1].After, *d.Tasks[2].Title)
			d.Tasks[2].After = append(d.Tasks[2].After, *d.Tasks[0].Title)
			return "3-cycle"
		}
		d.Tasks = []PlanTask{}
		return "empty task list"
	case 5:
		d.Tasks = []PlanTask{}
		return "empty task list"
	case 6:
		d.Title = nil
		return "missing epic title"
	case 7:
		d.Title = sp(" \t\n")
		return "blank epic title"
	case 8:
		d.Tasks[uni(t, n, "blank.i")].Title = sp("  ")
		return "blank task title"
	case 9:
		d.Tasks[uni(t, n, "nil.i")].Title = nil
		return "missing task title"
	case 10:
		d.Tasks[uni(t, n, "body.i")].Body = sp(" \n ")
		return "blank task body"
	case 11:
		d.Body = sp("   ")
		return "blank epic body"
	case 12:
		m := asMap()
		m[oneOf(t, []string{"priority", "owner", "epic", "state", "tasks2"}, "key.top")] = "x"
		raw(m)
		return "unknown top-level key"
	case 13:
		m := asMap()
		ts, _ := m["tasks"].([]any)
		if len(ts) > 0 {
			tm, _ := ts[uni(t, len(ts), "key.i")].(map[string]any)
			tm[oneOf(t, []string{"priority", "state", "claim", "epic", "deps"}, "key.nested")] = "x"
		}
		raw(m)
		return "unknown nested key"
	case 14:
		m := asMap()
		switch uni(t, 3, "type.which") {
		case 0:
			m["tasks"] = "not a list"
		case 1:
			m["title"] = 42
		default:
			ts, _ := m["tasks"].([]any)
			if len(ts) > 0 {
				tm, _ := ts[0].(map[string]any)
				tm["after"] = "not a list"
			}
		}
		raw(m)
		return "wrong type"
	case 15:
		b, _ := json.Marshal(d)
		s := string(b) + "\n" + string(b)
		op.Raw = &s
		return "two JSON values"
	case 16:
		b, _ := json.Marshal(d)
		s := string(b) + " trailing"
		op.Raw = &s
		return "trailing garbage"
	case 17:
		b, _ := json.Marshal(d)
		s := string(b) + oneOf(t, []string{"}", "\n]", " ] ", "}}", "\n}\n"}, "closer")
		op.Raw = &s
		return "trailing closing bracket"
	case 18:
		b, _ := json.Marshal(d)
		s := string(b) + " ] " + string(b)
		op.Raw = &s
		return "second value after a stray bracket"
	case 20:
		// an after entry that matches a title only after trimming or case folding: dangling
		i := uni(t, n, "pad.i")
		j := uni(t, n, "pad.j")
		v := oneOf(t, []string{*d.Tasks[j].Title + " ", " " + *d.Tasks[j].Title, strings.ToUpper(*d.Tasks[j].Title) + "\u200b"}, "pad.variant")
		for _, t2 := range d.Tasks {
			if *t2.Title == v {
				v += "~"
			}
		}
		d.Tasks[i].After = append(d.Tasks[i].After, v)
		return "after entry differing from a title only by padding"
	case 19:
		b, _ := json.Marshal(d)
		s := string(b) + oneOf(t, []string{" 0", " null", " \"x\"", " []"}, "scalar")
		op.Raw = &s
		return "trailing scalar value"
	default:
		b, _ := json.Marshal(d)
		s := string(b[:len(b)-1-uni(t, len(b)/2, "trunc")])
		op.Raw = &s
		return "truncated JSON"
	}
}

func TestC11(t *testing.T) {
	RunSeq(t, SeqCheck{
		Prop: "C11", FaultPct: 5,
		Profile: Profile{Name: "plans", Weights: weightsWith(map[string]int{"plan": 0, "new_task": 14, "set": 16, "sequence": 8, "prune_yes": 4, "compact": 4, "claim": 4}),
			BadRef: 3, Spoil: 2, Results: 2, MinSteps: 3, MaxSteps: 12},
		GenOp: func(rt *rapid.T, w *World, pre *Snapshot, prof Profile) Op {
			if !pct(rt, 62, "c11.plan") {
				return genOp(rt, w, pre, prof)
			}
			op := Op{Kind: "plan", Plan: genRichPlan(rt, w), JSONAfter: pct(rt, 15, "json.after"), Quiet: pct(rt, 10, "quiet")}
			if pct(rt, 42, "c11.damage") {
				op.ExtraKey = "" // (unused for plan)
				why := damageRichPlan(rt, &op)
				_ = why
			}
			return op
		},
		Rule: "plan documents built constructively (1-15 tasks; titles from a pool with case / white-space / Unicode variants; bodies; a random DAG of after references drawn along a random topological order; duplicate after entries) and invalid documents one targeted edit away from valid (18 kinds: duplicate titles, dangling / self / 2- and 3-cyclic after, empty list, missing / blank fields, unknown top-level and nested keys, wrong types, two values, trailing garbage, truncation), interleaved with other commands on a growing store; oracle: valid => exactly one epic + one todo unclaimed task per entry in input order inside the epic with identical titles / bodies, edges == after relation, reply == read, old items unchanged; invalid => non-zero exit, one error object, log bytes unchanged; non-trivial = a plan with >= 3 tasks and >= 2 edges, or an invalid document" + distinctRule,
		NonTrivial: func(h []stepInfo) bool {
			return anyStep(h, func(s stepInfo) bool {
				op := s.Out.Op
				if op.Kind != "plan" {
					return false
				}
				if !s.Out.Accepted {
					return true
				}
				e := 0
				for _, t := range op.Plan.Tasks {
					e += len(t.After)
				}
				return len(op.Plan.Tasks) >= 3 && e >= 2
			})
		},
		AfterStep: func(rt *rapid.T, w *World, h []stepInfo) []Violation {
			s := h[len(h)-1]
			if s.Out.Op.Kind != "plan" || s.Out.Accepted {
				return nil
			}
			// the rejection must be a structured error object naming parse_error / validation_failed
			var m map[string]any
			if strings.TrimSpace(s.Out.Stdout) == "" || StrictJSON(s.Out.Stdout, &m) != nil {
				return []Violation{{"C11", "rejected plan did not print one error object on stdout: " + clip(s.Out.Stdout, 120)}}
			}
			if e := asString(m["error"]); e != "parse_error" && e != "validation_failed" {
				return []Violation{{"C11", "rejected plan reports error kind " + e}}
			}
			return nil
		},
	})
}

package props

import (
	"encoding/json"
	"fmt"
	"os"
	"path/filepath"
	"strings"
	"testing"
	"time"

	"pgregory.net/rapid"
)

// C18: every command finds the same store, and init never hides data.

// LayoutCase is the replay format.
type LayoutCase struct {
	Property   string      `json:"property"`
	Engine     string      `json:"engine"`
	Test       string      `json:"test"`
	Depth      int         `json:"project_depth"`
	Nested     bool        `json:"nested_project"`
	Files      string      `json:"files"` // plans | events | both | neither
	LockGone   bool        `json:"lock_removed"`
	StartDepth int         `json:"start_depth"` // directories below the project root
	InNested   bool        `json:"start_in_nested"`
	Symlink    bool        `json:"start_through_symlink"`
	Spellings  []string    `json:"spellings"`
	Writer     string      `json:"writer_spelling"`
	Mutation   string      `json:"mutation"`
	Drain      bool        `json:"drain"` // finish everything, prune --yes, compact: the log file becomes empty
	// OddNames: directory names that mean something to a shell but are plain names to the
	// file system ($word, ${word}, a leading ~, a space, %41)
	OddNames bool `json:"odd_directory_names,omitempty"`
	// GitBelow: the directories below the project root hold a .git (directory or file): a
	// nested clone, submodule or worktree is still inside the project
	GitBelow int `json:"git_entries_below_root,omitempty"` // 0 none, 1 directory, 2 file
	Violations []Violation `json:"violations,omitempty"`
}

var allSpellings = []string{"cwd", "abs", "abs/", "rel.", "rel..", "relA/..", "ergodir-abs", "ergodir-rel", "abs-dotdot"}

// spell returns (cwd, --dir args) for a spelling of "start here".
func spell(start, project, spelling string) (cwd string, args []string, ok bool) {
	switch spelling {
	case "cwd":
		return start, nil, true
	case "abs":
		return "/", []string{"--dir", start}, true
	case "abs/":
		return "/", []string{"--dir", start + "/"}, true
	case "rel.":
		return start, []string{"--dir", "."}, true
	case "rel..":
		sub := filepath.Join(start, "zz-sub")
		_ = os.MkdirAll(sub, 0o755)
		return sub, []string{"--dir", ".."}, true
	case "relA/..":
		_ = os.MkdirAll(filepath.Join(start, "zz-a"), 0o755)
		return start, []string{"--dir", "zz-a/.."}, true
	case "abs-dotdot":
		_ = os.MkdirAll(filepath.Join(start, "zz-a"), 0o755)
		return "/", []string{"--dir", filepath.Join(start, "zz-a") + "/.."}, true
	case "ergodir-abs":
		return "/", []string{"--dir", filepath.Join(project, ".ergo")}, start == project
	case "ergodir-rel":
		return project, []string{"--dir", ".ergo"}, start == project
	}
	return "", nil, false
}

func runAt(cwd string, dirArgs []string, stdin string, args ...string) Res {
	// a shell exports the logical working directory as PWD; do the same, so that a start
	// directory reached through a symlink is seen the way a user's shell presents it
	c := Cmd{Args: append(append([]string{}, dirArgs...), args...), Dir: cwd, Env: []string{"PWD=" + cwd}}
	if stdin != "" {
		c.Mode, c.Stdin = StdinPipe, stdin
	}
	return Run(c)
}

// makeProject creates <dir>/.ergo with one seed task in the chosen file layout.
func makeProject(dir, files, seedTitle string) (seedID string, err error) {
	if e := os.MkdirAll(dir, 0o755); e != nil {
		return "", e
	}
	if r := Run(Cmd{Args: []string{"init"}, Dir: dir}); !r.OK() {
		return "", fmt.Errorf("init: %s", r.Stderr)
	}
	r := Run(Cmd{Args: []string{"--json", "new", "task"}, Mode: StdinPipe, Stdin: fmt.Sprintf(`{"title":%q}`, seedTitle), Dir: dir})
	var m struct{ ID string }
	if !r.OK() || StrictJSON(r.Stdout, &m) != nil {
		return "", fmt.Errorf("seed: %s", r.Stderr)
	}
	plans := filepath.Join(dir, ".ergo", "plans.jsonl")
	events := filepath.Join(dir, ".ergo", "events.jsonl")
	switch files {
	case "events":
		err = os.Rename(plans, events)
	case "both":
		// a stale legacy file next to the current one: plans.jsonl must win
		stale := fmt.Sprintf(`{"type":"new_task","ts":"2020-01-01T00:00:00Z","data":{"id":"STALE1","uuid":"00000000-0000-4000-8000-000000000001","epic_id":"","state":"todo","title":"stale legacy item","body":"","created_at":"2020-01-01T00:00:00Z"}}` + "\n")
		err = os.WriteFile(events, []byte(stale), 0o644)
	case "neither":
		err = os.Remove(plans)
		m.ID = ""
	}
	return m.ID, err
}

func expectedLogFile(ergoDir string) string {
	p := filepath.Join(ergoDir, "plans.jsonl")
	if _, err := os.Stat(p); err == nil {
		return p
	}
	o := filepath.Join(ergoDir, "events.jsonl")
	if _, err := os.Stat(o); err == nil {
		return o
	}
	return p
}

func listIDs(cwd string, dirArgs []string) (map[string]string, Res) {
	r := runAt(cwd, dirArgs, "", "--json", "list", "--all")
	out := map[string]string{}
	var items []listItemJSON
	if r.OK() && StrictJSON(r.Stdout, &items) == nil {
		for _, it := range items {
			out[it.ID] = it.Title
		}
	}
	return out, r
}

func (lc LayoutCase) pname(i int) string {
	if lc.OddNames {
		return []string{"~work", "cost$center", "p ${HOME} x", "%41$USER"}[i%4]
	}
	return fmt.Sprintf("p%d", i)
}

func (lc LayoutCase) sname(i int) string {
	if lc.OddNames {
		return []string{"src$PWD", "~", "$HOME", "a b$c~"}[i%4]
	}
	return fmt.Sprintf("s%d", i)
}

func runLayoutCase(lc LayoutCase) (viol []string, labels []string) {
	bad := func(f string, a ...any) { viol = append(viol, fmt.Sprintf(f, a...)) }
	base := NewScratchDir("c18")
	defer RemoveAll(base)
	// an outer decoy project above everything: the nearest enclosing store must win
	if _, err := makeProject(base, "plans", "decoy at the top"); err != nil {
		return nil, []string{"setup-failed"}
	}
	project := base
	for i := 0; i < lc.Depth; i++ {
		project = filepath.Join(project, lc.pname(i))
	}
	if lc.Depth == 0 {
		project = filepath.Join(base, map[bool]string{false: "proj", true: "~proj$x"}[lc.OddNames])
	}
	seed, err := makeProject(project, lc.Files, "seed of the project")
	if err != nil {
		return nil, []string{"setup-failed"}
	}
	start := project
	for i := 0; i < lc.StartDepth; i++ {
		start = filepath.Join(start, lc.sname(i))
	}
	_ = os.MkdirAll(start, 0o755)
	if lc.GitBelow > 0 && start != project {
		for d := start; d != project && len(d) > len(project); d = filepath.Dir(d) {
			if lc.GitBelow == 1 {
				_ = os.MkdirAll(filepath.Join(d, ".git"), 0o755)
			} else {
				_ = os.WriteFile(filepath.Join(d, ".git"), []byte("gitdir: ../.git/modules/x\n"), 0o644)
			}
		}
	}
	target := project
	if lc.Nested {
		nested := filepath.Join(project, lc.sname(0), "inner")
		if _, err := makeProject(nested, "plans", "seed of the nested project"); err != nil {
			return nil, []string{"setup-failed"}
		}
		if lc.InNested {
			start = filepath.Join(nested, "deep")
			_ = os.MkdirAll(start, 0o755)
			target = nested
			seed = ""
		}
	}
	consistentOnly := false
	if lc.Symlink {
		// the start directory is reached through a symlink that lives in ANOTHER project:
		// which store is "enclosing" is debatable, but every command must agree with `where`
		other := filepath.Join(base, "other")
		if _, err := makeProject(other, "plans", "seed of the other project"); err != nil {
			return nil, []string{"setup-failed"}
		}
		link := filepath.Join(other, "linked")
		if err := os.Symlink(start, link); err != nil {
			return nil, []string{"setup-failed"}
		}
		start = link
		consistentOnly = true
	}
	ergoDir := filepath.Join(target, ".ergo")
	if lc.LockGone {
		os.Remove(filepath.Join(ergoDir, "lock"))
	}
	logFile := expectedLogFile(ergoDir)
	otherFile := filepath.Join(ergoDir, "events.jsonl")
	if filepath.Base(logFile) == "events.jsonl" {
		otherFile = filepath.Join(ergoDir, "plans.jsonl")
	}
	otherBefore, _ := os.ReadFile(otherFile)
	_, otherExisted := os.Stat(otherFile)

	// 1. where agrees with the nearest enclosing .ergo for every spelling
	whereOf := map[string]string{}
	for _, sp := range lc.Spellings {
		cwd, dargs, ok := spell(start, target, sp)
		if !ok {
			continue
		}
		r := runAt(cwd, dargs, "", "--json", "where")
		var m struct {
			ErgoDir string `json:"ergo_dir"`
			RepoDir string `json:"repo_dir"`
		}
		if !r.OK() || StrictJSON(r.Stdout, &m) != nil {
			bad("`where` fails for spelling %s from %s: %s", sp, cwd, clip(r.Stderr, 160))
			continue
		}
		whereOf[sp] = m.ErgoDir
		if !consistentOnly && m.ErgoDir != ergoDir {
			bad("`where` via %s reports %s, the nearest enclosing store is %s", sp, m.ErgoDir, ergoDir)
		}
		if m.RepoDir != filepath.Dir(m.ErgoDir) {
			bad("`where` via %s: repo_dir %s is not the parent of ergo_dir %s", sp, m.RepoDir, m.ErgoDir)
		}
	}
	if len(viol) > 0 {
		return
	}
	// 2. a mutation made through one spelling is seen through every other one
	wcwd, wargs, ok := spell(start, target, lc.Writer)
	if !ok {
		wcwd, wargs = start, nil
	}
	var marker string
	switch lc.Mutation {
	case "plan":
		r := runAt(wcwd, wargs, `{"title":"marker epic","tasks":[{"title":"marker task"}]}`, "--json", "plan")
		var m struct {
			Tasks []struct{ ID string } `json:"tasks"`
		}
		if !r.OK() || StrictJSON(r.Stdout, &m) != nil || len(m.Tasks) != 1 {
			bad("plan via %s failed: %s", lc.Writer, clip(r.Stderr, 200))
			return
		}
		marker = m.Tasks[0].ID
	default:
		r := runAt(wcwd, wargs, `{"title":"marker task"}`, "--json", "new", "task")
		var m struct{ ID string }
		if !r.OK() || StrictJSON(r.Stdout, &m) != nil {
			bad("new task via %s failed: %s", lc.Writer, clip(r.Stderr, 200))
			return
		}
		marker = m.ID
	}
	if lc.Mutation == "set" || lc.Mutation == "claim" {
		var r Res
		if lc.Mutation == "set" {
			r = runAt(wcwd, wargs, `{"state":"done"}`, "--json", "set", marker)
		} else {
			r = runAt(wcwd, wargs, "", "--json", "claim", marker, "--agent", "finder")
		}
		if !r.OK() {
			bad("%s of the marker via %s failed: %s", lc.Mutation, lc.Writer, clip(r.Stderr, 200))
		}
	}
	wantStore := ergoDir
	if consistentOnly {
		wantStore = whereOf[lc.Writer]
		if wantStore == "" {
			for _, v := range whereOf {
				wantStore = v
			}
		}
		logFile = expectedLogFile(wantStore)
	}
	for _, sp := range lc.Spellings {
		cwd, dargs, ok := spell(start, target, sp)
		if !ok {
			continue
		}
		ids, r := listIDs(cwd, dargs)
		if !r.OK() {
			bad("list via %s fails: %s", sp, clip(r.Stderr, 160))
			continue
		}
		if _, seen := ids[marker]; !seen {
			bad("the task written via %s is not visible via %s (store per `where`: %s)", lc.Writer, sp, whereOf[sp])
		}
		if seed != "" && !consistentOnly {
			if _, seen := ids[seed]; !seen {
				bad("the project's own earlier item is not visible via %s", sp)
			}
		}
		for id, title := range ids {
			if !consistentOnly && (strings.Contains(title, "decoy") || strings.Contains(title, "stale") || (target == project && strings.Contains(title, "nested")) || strings.Contains(title, "other")) {
				bad("list via %s shows %s (%q), an item of another store or of the stale legacy file", sp, id, title)
			}
		}
		if rs := runAt(cwd, dargs, "", "--json", "show", marker); !rs.OK() {
			bad("show of the marker via %s fails: %s", sp, clip(rs.Stderr, 160))
		}
	}
	// 3. exactly one log file per layout
	if b, err := os.ReadFile(logFile); err != nil || !strings.Contains(string(b), marker) {
		bad("the mutation did not go to %s (the file this layout must use)", logFile)
	}
	if !consistentOnly {
		otherAfter, errAfter := os.ReadFile(otherFile)
		if otherExisted == nil {
			if errAfter != nil || string(otherAfter) != string(otherBefore) {
				bad("the other log file %s was modified", otherFile)
			}
		} else if errAfter == nil {
			bad("a second log file %s appeared", otherFile)
		}
		// 4. the lock file is back
		if _, err := os.Stat(filepath.Join(ergoDir, "lock")); err != nil {
			bad("the lock file was not recreated by a mutating command")
		}
	}
	if len(viol) > 0 {
		return
	}
	// 5. init is idempotent on an existing store
	if !consistentOnly {
		before, err := TakeSnapshot(target)
		if err != nil {
			bad("store unreadable before init: %v", err)
			return
		}
		hows := []string{"cwd", "arg"}
		if start == target {
			for _, sp := range lc.Spellings {
				hows = append(hows, "spelling:"+sp)
			}
		}
		for _, how := range hows {
			var r Res
			if lc.LockGone {
				// init on a populated store whose lock file is missing (a fresh clone with the
				// lock ignored): still an existing store
				_ = os.Remove(filepath.Join(target, ".ergo", "lock"))
			}
			switch {
			case how == "cwd":
				r = Run(Cmd{Args: []string{"--json", "init"}, Dir: target})
			case how == "arg":
				r = Run(Cmd{Args: []string{"--json", "init", target}, Dir: "/"})
			default:
				// init addressed the way every other command is: whatever it does with --dir, the
				// store must read the same afterwards through every spelling
				cwd, dargs, ok := spell(start, target, strings.TrimPrefix(how, "spelling:"))
				if !ok || cwd != target {
					continue
				}
				r = runAt(cwd, dargs, "", "--json", "init")
			}
			if !r.OK() {
				bad("init (%s) on an existing store fails: %s", how, clip(r.Stderr, 160))
				continue
			}
			after, err := TakeSnapshot(target)
			if err != nil {
				bad("store unreadable after init: %v", err)
				continue
			}
			for _, d := range DiffSnap(before, after, DiffOpts{}) {
				bad("init (%s) on a store with layout %q changed or hid an item: %s", how, lc.Files, d)
			}
			for _, sp := range lc.Spellings {
				cwd, dargs, ok := spell(start, target, sp)
				if !ok {
					continue
				}
				ids, rl := listIDs(cwd, dargs)
				if !rl.OK() {
					bad("after init (%s) list via %s fails: %s", how, sp, clip(rl.Stderr, 120))
				} else if len(ids) != len(before.Tasks()) {
					bad("after init (%s) list via %s shows %d tasks, the store has %d", how, sp, len(ids), len(before.Tasks()))
				}
			}
		}
	}
	// 6. a history that empties the log: everything finished, pruned and compacted away.
	// The store must then be empty through every spelling (nothing stale comes back) and
	// keep using the same file.
	if lc.Drain && !consistentOnly {
		ids, _ := listIDs(target, nil)
		for id := range ids {
			r := runAt(target, nil, `{"state":"done"}`, "--json", "--agent", "drainer", "set", id)
			if !r.OK() {
				r = runAt(target, nil, `{"state":"todo"}`, "--json", "set", id)
				r = runAt(target, nil, `{"state":"done"}`, "--json", "set", id)
			}
			if !r.OK() {
				bad("cannot finish %s: %s", id, clip(r.Stderr, 120))
			}
		}
		if r := runAt(target, nil, "", "--json", "prune", "--yes"); !r.OK() {
			bad("prune --yes fails: %s", clip(r.Stderr, 160))
		}
		if r := runAt(target, nil, "", "--json", "compact"); !r.OK() {
			bad("compact fails: %s", clip(r.Stderr, 160))
		}
		for _, sp := range lc.Spellings {
			cwd, dargs, ok := spell(start, target, sp)
			if !ok {
				continue
			}
			ids, r := listIDs(cwd, dargs)
			if !r.OK() {
				bad("list via %s fails after the store was emptied: %s", sp, clip(r.Stderr, 160))
			}
			for id, title := range ids {
				bad("after everything was pruned and compacted, list via %s shows %s (%q)", sp, id, title)
			}
			var eps []listItemJSON
			if re := runAt(cwd, dargs, "", "--json", "list", "--epics"); re.OK() && StrictJSON(re.Stdout, &eps) == nil && len(eps) > 0 {
				bad("after everything was pruned and compacted, list --epics via %s shows %d epics", sp, len(eps))
			}
		}
		r := runAt(wcwd, wargs, `{"title":"after the drain"}`, "--json", "new", "task")
		var m struct{ ID string }
		if !r.OK() || StrictJSON(r.Stdout, &m) != nil {
			bad("new task after the drain fails: %s", clip(r.Stderr, 160))
		} else if b, err := os.ReadFile(logFile); err != nil || !strings.Contains(string(b), m.ID) {
			bad("after the drain the store switched away from %s", logFile)
		}
		labels = append(labels, "drained")
	}
	labels = append(labels, "files."+lc.Files, "mutation."+lc.Mutation, "writer."+lc.Writer)
	if lc.OddNames {
		labels = append(labels, "directory_names_with_shell_metacharacters")
	}
	if lc.GitBelow > 0 {
		labels = append(labels, "git_entry_in_directories_below_the_root")
	}
	return
}

func TestC18(t *testing.T) {
	if os.Getenv("VERIF_MINIMIZE_IN") != "" {
		return
	}
	if p := os.Getenv("VERIF_REPLAY_IN"); p != "" {
		b, _ := os.ReadFile(p)
		var lc LayoutCase
		if err := json.Unmarshal(b, &lc); err != nil {
			t.Fatal(err)
		}
		if v, _ := runLayoutCase(lc); len(v) > 0 {
			t.Fatalf("REPLAY-VIOLATION C18: %v", v)
		}
		return
	}
	stats := NewStats("C18", "LAYOUT/configurations", "generated directory trees: a decoy project at the top, the project at depth 0-3, optionally a nested project below it and a second project reached through a symlink; log files {plans.jsonl, events.jsonl, both with a stale legacy file, neither}; lock present / removed; the start directory at depth 0-3 below the project (or inside the nested one); the start spelled in up to nine ways (cwd, absolute --dir, trailing slash, '.', '..', 'a/..', absolute with '/..', the .ergo directory itself absolute / relative); oracle: `where` names the nearest enclosing .ergo for every spelling (through a symlink: only agreement is demanded), a mutation (new task / plan / set / claim) made through one spelling is visible through every other one, no item of another store or of the stale legacy file appears, the mutation lands in exactly the log file the layout prescribes, a removed lock reappears, and init (from inside and with a path argument) leaves the snapshot equal; non-trivial = start != project root, or a legacy / double / missing log file, or a relative spelling; distinct = distinct configurations")
	defer stats.Flush()
	deadline := budgetDeadline()
	replayPath := ReplayOutPath("C18")
	rapid.Check(t, func(rt *rapid.T) {
		if !deadline.IsZero() && time.Now().After(deadline) {
			stats.Shortfall = "wall-clock guard reached before all requested configurations ran"
			return
		}
		lc := LayoutCase{Property: "C18", Engine: "LAYOUT", Test: "TestC18"}
		lc.Depth = between(rt, 0, 3, "depth")
		lc.Files = oneOf(rt, []string{"plans", "plans", "events", "events", "both", "neither"}, "files")
		lc.LockGone = pct(rt, 30, "lock")
		lc.StartDepth = between(rt, 0, 3, "start")
		lc.Nested = pct(rt, 30, "nested")
		if lc.Nested {
			if lc.StartDepth == 0 {
				lc.StartDepth = 1
			}
			lc.InNested = pct(rt, 40, "innested")
		}
		lc.Symlink = !lc.InNested && pct(rt, 15, "symlink")
		n := between(rt, 2, 5, "spellings")
		perm := rapid.Permutation(allSpellings).Draw(rt, "spell.perm")
		lc.Spellings = append([]string{"cwd"}, perm[:n]...)
		lc.Writer = oneOf(rt, lc.Spellings, "writer")
		if (lc.Writer == "ergodir-abs" || lc.Writer == "ergodir-rel") && (lc.StartDepth > 0 || lc.InNested || lc.Symlink) {
			lc.Writer = "cwd"
		}
		lc.Mutation = oneOf(rt, []string{"new", "new", "plan", "set", "claim"}, "mutation")
		lc.Drain = pct(rt, 45, "drain")
		lc.OddNames = pct(rt, 35, "oddnames")
		if lc.StartDepth > 0 && pct(rt, 25, "gitbelow") {
			lc.GitBelow = 1 + uni(rt, 2, "gitbelow.kind")
		}
		viol, labels := runLayoutCase(lc)
		if len(viol) > 0 {
			var vs []Violation
			for _, m := range viol {
				vs = append(vs, Violation{"C18", m})
			}
			lc.Violations = vs
			WriteReplay(replayPath, lc)
			rt.Fatalf("C18 violated: %v", viol)
		}
		stats.Eval()
		for _, l := range labels {
			stats.Label(l)
		}
		rel := false
		for _, s := range lc.Spellings {
			if strings.HasPrefix(s, "rel") || s == "ergodir-rel" {
				rel = true
			}
		}
		if lc.StartDepth > 0 || lc.Files != "plans" || rel || lc.Symlink || lc.InNested {
			b, _ := json.Marshal(lc)
			stats.NonTrivial(string(b))
		}
		if lc.Symlink {
			stats.Label("start_through_symlink")
		}
		if lc.Nested {
			stats.Label("nested_project")
		}
		stats.Sample(len(lc.Spellings)+lc.StartDepth, lc)
	})
}

// TestC18Seq runs ordinary command histories on stores that use the legacy file name or
// hold both files. Whatever goes wrong there and not on a plans.jsonl store is a C18
// matter ("read and written consistently by all commands"), so every violation counts.
func TestC18Seq(t *testing.T) {
	if os.Getenv("VERIF_MINIMIZE_IN") != "" {
		return
	}
	layout := func(w *World, kind string) {
		plans := filepath.Join(w.Root, ".ergo", "plans.jsonl")
		events := filepath.Join(w.Root, ".ergo", "events.jsonl")
		switch kind {
		case "events":
			_ = os.Rename(plans, events)
		case "both":
			stale := `{"type":"new_task","ts":"2020-01-01T00:00:00Z","data":{"id":"STALE1","uuid":"00000000-0000-4000-8000-000000000001","epic_id":"","state":"todo","title":"stale legacy item","body":"","created_at":"2020-01-01T00:00:00Z"}}` + "\n"
			_ = os.WriteFile(events, []byte(stale), 0o644)
		}
	}
	prof := Profile{Name: "legacy-layouts", Weights: weightsWith(map[string]int{"prune_yes": 9, "compact": 9, "init": 6, "set": 30, "plan": 4}),
		BadRef: 3, Spoil: 3, Results: 4, MinSteps: 6, MaxSteps: 26, StatePool: []string{"done", "done", "canceled", "todo", "doing", "blocked"}}
	if p := os.Getenv("VERIF_REPLAY_IN"); p != "" {
		b, _ := os.ReadFile(p)
		var h History
		if err := json.Unmarshal(b, &h); err != nil {
			t.Fatal(err)
		}
		w := NewWorld("c18-replay")
		defer w.Close()
		layout(w, h.Note)
		pre, _ := TakeSnapshot(w.Root)
		for _, op := range h.Ops {
			out := w.Step(pre, op)
			if len(out.Viol) > 0 {
				t.Fatalf("REPLAY-VIOLATION C18: on a store with layout %q: %v", h.Note, out.Viol)
			}
			if out.Post == nil || out.Abort != "" {
				break
			}
			pre = out.Post
		}
		return
	}
	stats := NewStats("C18", "SEQ/legacy-layouts", "random command histories (all commands incl. prune --yes, compact and init) on stores that use the legacy events.jsonl or hold a current plans.jsonl next to a stale events.jsonl; every oracle of the SEQ engine applies and any violation counts (the same histories pass on a plans.jsonl store in the other checks); non-trivial = the history contains a prune --yes or a compact or an init; distinct = distinct command sequences")
	defer stats.Flush()
	replayPath := ReplayOutPath("C18")
	deadline := budgetDeadline()
	rapid.Check(t, func(rt *rapid.T) {
		if !deadline.IsZero() && time.Now().After(deadline) {
			stats.Shortfall = "wall-clock guard reached"
			return
		}
		w := NewWorld("C18seq")
		defer w.Close()
		kind := oneOf(rt, []string{"events", "both", "both"}, "layout")
		layout(w, kind)
		pre, err := TakeSnapshot(w.Root)
		if err != nil {
			rt.Fatalf("store unreadable: %v", err)
		}
		n := between(rt, prof.MinSteps, prof.MaxSteps, "steps")
		var ops []Op
		var canon []string
		special := false
		for i := 0; i < n; i++ {
			op := genOp(rt, w, pre, prof)
			op.N = i
			ops = append(ops, op)
			out := w.Step(pre, op)
			if len(out.Viol) > 0 {
				var vs []Violation
				for _, v := range out.Viol {
					vs = append(vs, Violation{"C18", fmt.Sprintf("on a store with layout %q: [%s] %s", kind, v.Prop, v.Msg)})
				}
				WriteReplay(replayPath, History{Property: "C18", Engine: "SEQ", Profile: prof.Name, Ops: ops, Violations: vs, Note: kind})
				rt.Fatalf("C18 violated: %v", vs)
			}
			if out.Post == nil || out.Abort != "" {
				break
			}
			if out.Accepted && (op.Kind == "prune_yes" || op.Kind == "compact" || op.Kind == "init") {
				special = true
			}
			canon = append(canon, op.Kind+"/"+fieldSig(op))
			pre = out.Post
		}
		stats.Eval()
		stats.Label("layout." + kind)
		if special {
			stats.NonTrivial(kind + ":" + strings.Join(canon, ";"))
		}
		stats.Sample(len(ops), map[string]any{"layout": kind, "commands": canon})
	})
}

package props

import (
	"bytes"
	"encoding/json"
	"fmt"
	"os"
	"os/exec"
	"regexp"
	"strconv"
	"strings"
	"sync/atomic"
	"testing"
	"time"
	"unicode/utf8"

	"github.com/creack/pty"
	"pgregory.net/rapid"
)

// C19: the human list is a complete, well-formed picture of the same state.

// displayWidth is the harness's own width table for the width-unambiguous classes the
// generator uses: combining marks 0, CJK / kana / hangul / full-width forms 2, else 1.
func displayWidth(s string) int {
	n := 0
	for _, r := range s {
		switch {
		case r >= 0x0300 && r <= 0x036f, r >= 0x200b && r <= 0x200f, r == 0xfeff:
			// zero width
		case (r >= 0x1100 && r <= 0x115f) || (r >= 0x2e80 && r <= 0xa4cf) || (r >= 0xac00 && r <= 0xd7a3) ||
			(r >= 0xf900 && r <= 0xfaff) || (r >= 0xfe30 && r <= 0xfe6f) || (r >= 0xff00 && r <= 0xff60) || (r >= 0xffe0 && r <= 0xffe6):
			n += 2
		default:
			n++
		}
	}
	return n
}

var reANSI = regexp.MustCompile("\x1b\\[[0-9;]*m")

var wordPools = map[string][]string{
	"ascii":     {"fix", "the", "parser", "deploy", "refactor", "a", "of", "cache", "API", "x"},
	"latin":     {"café", "naïve", "über", "señor", "façade", "Ångström", "œuvre"},
	"cjk":       {"任务", "データ", "実装", "테스트", "漢字", "カタカナ", "ひらがな", "완료"},
	"combining": {"é", "ñ", "ö", "á́", "x̄̃"},
	"fullwidth": {"ＡＢＣ", "１２３"},
}

var wordPoolNames = []string{"ascii", "ascii", "latin", "cjk", "cjk", "combining", "fullwidth"}

func genDisplayText(t *rapid.T, label string, minCols, maxCols int) string {
	target := between(t, minCols, maxCols, label+".cols")
	var parts []string
	w := 0
	for w < target {
		p := oneOf(t, wordPools[oneOf(t, wordPoolNames, label+".pool")], label+".word")
		parts = append(parts, p)
		w += displayWidth(p) + 1
	}
	return strings.Join(parts, " ")
}

// ptyEnd is written to the slave side by the harness itself after the child has exited.
// A pseudo terminal is a FIFO, so once the reader has seen these bytes it has seen
// everything the child wrote before them: the capture is complete by construction and
// does not rest on what read() on the master does when the last slave descriptor goes
// away, nor on a timer. The record separators never occur in generated text.
const ptyEnd = "\x1e<<verif-pty-end>>\x1e"

// ptyWait bounds the wait for the end marker. Reaching it is infrastructure trouble (the
// rendering is labelled and not judged), never a verdict about ergo.
var ptyWait = 120 * time.Second

// ptyRes is one rendering on a pseudo terminal.
type ptyRes struct {
	Out    string
	Stderr string
	Code   int
	Wall   time.Duration
}

// runOnPty runs ergo with stdout on a pseudo terminal of the given width. An error means
// that the terminal could not be set up or that its output could not be captured whole.
func runOnPty(root string, cols int, args ...string) (ptyRes, error) {
	atomic.AddInt64(&execCount, 1)
	start := time.Now()
	cmd := exec.Command(ErgoBin(), args...)
	cmd.Dir = root
	cmd.Env = append(baseEnv()[:0:0], "PATH=/usr/bin:/bin", "HOME=/nonexistent", "LANG=C.UTF-8", "LC_ALL=C.UTF-8", "TERM=xterm")
	ptmx, tty, err := pty.Open()
	if err != nil {
		return ptyRes{}, err
	}
	defer ptmx.Close()
	defer tty.Close() // the harness keeps the slave side open until the end marker is through
	if err := pty.Setsize(ptmx, &pty.Winsize{Rows: 50, Cols: uint16(cols)}); err != nil {
		return ptyRes{}, err
	}
	var stderr bytes.Buffer
	cmd.Stdout = tty
	cmd.Stderr = &stderr
	type chunk struct {
		b   []byte
		err error
	}
	chunks := make(chan chunk, 64)
	stop := make(chan struct{})
	defer close(stop)
	go func() {
		for {
			buf := make([]byte, 32<<10)
			n, err := ptmx.Read(buf)
			select {
			case chunks <- chunk{buf[:n], err}:
			case <-stop:
				return
			}
			if err != nil {
				return
			}
		}
	}()
	if err := cmd.Start(); err != nil {
		return ptyRes{}, err
	}
	// read while the child runs (a terminal holds only a few KB), until the marker is seen
	var out []byte
	waitErr := make(chan error, 1)
	go func() { waitErr <- cmd.Wait() }()
	var exitErr error
	exited := false
	timeout := time.NewTimer(ptyWait)
	defer timeout.Stop()
	for {
		if i := bytes.Index(out, []byte(ptyEnd)); i >= 0 {
			out = out[:i]
			break
		}
		select {
		case c := <-chunks:
			out = append(out, c.b...)
			if c.err != nil && !bytes.Contains(out, []byte(ptyEnd)) {
				if !exited {
					cmd.Process.Kill()
					<-waitErr
				}
				return ptyRes{}, fmt.Errorf("pty capture ended before the end marker: %v", c.err)
			}
		case exitErr = <-waitErr:
			exited = true
			if _, err := tty.Write([]byte(ptyEnd)); err != nil {
				return ptyRes{}, fmt.Errorf("pty end marker could not be written: %v", err)
			}
		case <-timeout.C:
			if !exited {
				cmd.Process.Kill()
				<-waitErr
			}
			return ptyRes{}, fmt.Errorf("pty capture: no end marker within %v", ptyWait)
		}
	}
	res := ptyRes{Stderr: stderr.String(), Wall: time.Since(start)}
	if ee, ok := exitErr.(*exec.ExitError); ok {
		res.Code = ee.ExitCode()
	} else if exitErr != nil {
		return ptyRes{}, exitErr
	}
	// the terminal's output processing turns \n into \r\n; nothing else is touched
	res.Out = strings.ReplaceAll(string(out), "\r\n", "\n")
	return res, nil
}

type listRow struct {
	raw    string
	id     string
	child  bool // starts with a tree glyph
	width  int
	hasAnn bool
}

var reRowID = regexp.MustCompile(`  ([A-Z0-9]{6})$`)

// parseHuman splits human list output into item rows and the rest.
func parseHuman(out string, live map[string]bool) (rows []listRow, other []string) {
	for _, l := range strings.Split(out, "\n") {
		l = reANSI.ReplaceAllString(l, "")
		if strings.TrimSpace(l) == "" {
			continue
		}
		if m := reRowID.FindStringSubmatch(l); m != nil && live[m[1]] {
			first, _ := utf8.DecodeRuneInString(l)
			rows = append(rows, listRow{raw: l, id: m[1], child: first == '├' || first == '└' || first == '│', width: displayWidth(l), hasAnn: strings.Contains(l, "⧗") || strings.Contains(l, "@")})
			continue
		}
		other = append(other, l)
	}
	return
}

var reSummaryPart = regexp.MustCompile(`^(\d+) (ready|in progress|blocked|error|done|canceled)$`)

func parseSummary(other []string) (map[string]int, bool) {
	for _, l := range other {
		parts := strings.Split(l, " · ")
		m := map[string]int{}
		ok := true
		for _, p := range parts {
			sm := reSummaryPart.FindStringSubmatch(strings.TrimSpace(p))
			if sm == nil {
				ok = false
				break
			}
			n, _ := strconv.Atoi(sm[1])
			m[sm[2]] = n
		}
		if ok && len(m) > 0 {
			return m, true
		}
	}
	return nil, false
}

type humanView struct {
	Name  string   `json:"name"`
	Args  []string `json:"args"`
	Width int      `json:"width"` // 0 = pipe
}

// rendering is what one human list invocation produced, kept for the replay file.
type rendering struct {
	View   string `json:"view"`
	Width  int    `json:"width"`
	Code   int    `json:"exit_code"`
	Stdout string `json:"stdout"`
	Stderr string `json:"stderr,omitempty"`
	WallMS int64  `json:"wall_ms"`
}

// renderHuman runs one human list view, on a pipe (width 0) or on a pseudo terminal.
func renderHuman(root string, v humanView) (rendering, error) {
	rd := rendering{View: v.Name, Width: v.Width}
	if v.Width > 0 {
		r, err := runOnPty(root, v.Width, v.Args...)
		if err != nil {
			return rd, err
		}
		rd.Stdout, rd.Stderr, rd.Code, rd.WallMS = r.Out, r.Stderr, r.Code, r.Wall.Milliseconds()
		return rd, nil
	}
	r := Run(Cmd{Args: v.Args, Dir: root})
	if r.TimedOut || r.Code == -1 {
		return rd, fmt.Errorf("list could not be run to completion: %s", clip(r.Stderr, 200))
	}
	rd.Stdout, rd.Stderr, rd.Code, rd.WallMS = r.Stdout, r.Stderr, r.Code, r.Wall.Milliseconds()
	return rd, nil
}

// checkHumanList renders one view and compares it with the JSON truth.
func checkHumanList(root string, snap *Snapshot, v humanView, epic string) (viol []string, notes []string, rd rendering) {
	rd, err := renderHuman(root, v)
	if err != nil {
		return nil, []string{"capture-failed"}, rd
	}
	viol, notes = judgeHumanList(rd.Stdout, rd.Code, snap, v, epic)
	return
}

// judgeHumanList compares one human rendering with the JSON truth.
func judgeHumanList(out string, code int, snap *Snapshot, v humanView, epic string) (viol []string, notes []string) {
	bad := func(f string, a ...any) {
		viol = append(viol, fmt.Sprintf("[%s width=%d] ", v.Name, v.Width)+fmt.Sprintf(f, a...))
	}
	if code != 0 {
		bad("list exited %d", code)
		return
	}
	if !utf8.ValidString(out) {
		for _, l := range strings.Split(out, "\n") {
			if !utf8.ValidString(l) {
				bad("a row is not valid UTF-8: %q", clip(l, 160))
				break
			}
		}
		return
	}
	live := map[string]bool{}
	for id := range snap.Items {
		live[id] = true
	}
	rows, other := parseHuman(out, live)
	width := v.Width
	if width == 0 {
		width = 80
	}
	seen := map[string]int{}
	for _, r := range rows {
		seen[r.id]++
	}
	for id, n := range seen {
		if n > 1 {
			bad("%s appears in %d rows", id, n)
		}
	}
	quiet := false
	for _, a := range v.Args {
		if a == "--quiet" || a == "-q" {
			quiet = true
		}
	}
	// scope and expected rows
	var scope []*Item
	for _, it := range snap.Tasks() {
		if epic == "" || it.EpicID == epic {
			scope = append(scope, it)
		}
	}
	active := func(it *Item) bool { return it.State != "done" && it.State != "canceled" }
	switch v.Name {
	case "all":
		for id := range snap.Items {
			if seen[id] != 1 {
				bad("live item %s has %d rows in list --all", id, seen[id])
			}
		}
	case "default":
		for _, it := range scope {
			if active(it) && seen[it.ID] != 1 {
				bad("active task %s (%s) has %d rows in the default view", it.ID, it.State, seen[it.ID])
			}
		}
	case "ready", "epic-ready":
		for _, it := range scope {
			if it.Ready && seen[it.ID] != 1 {
				bad("ready task %s has %d rows in the --ready view", it.ID, seen[it.ID])
			}
		}
		for _, r := range rows {
			if it := snap.Items[r.id]; !it.IsEpic && !it.Ready {
				bad("--ready view shows %s, which is not ready (%s)", r.id, it.State)
			}
		}
	case "epic":
		for _, it := range scope {
			if seen[it.ID] != 1 {
				bad("child %s of the epic has %d rows in list --epic", it.ID, seen[it.ID])
			}
		}
		for _, r := range rows {
			if it := snap.Items[r.id]; !it.IsEpic && it.EpicID != epic {
				bad("list --epic shows %s, which is not in that epic", r.id)
			}
		}
	case "epics":
		for _, e := range snap.Epics() {
			if seen[e.ID] != 1 {
				bad("epic %s has %d rows in list --epics", e.ID, seen[e.ID])
			}
		}
		for _, r := range rows {
			if !snap.Items[r.id].IsEpic {
				bad("list --epics shows task %s", r.id)
			}
		}
	}
	// hierarchy: children under their own epic with glyphs, root rows without
	curRoot := ""
	for _, r := range rows {
		it := snap.Items[r.id]
		if !r.child {
			curRoot = r.id
			if !it.IsEpic && it.EpicID != "" && snap.Items[it.EpicID] != nil && v.Name != "epics" {
				bad("task %s belongs to epic %s but is rendered as a root row", r.id, it.EpicID)
			}
			continue
		}
		if it.IsEpic {
			bad("epic %s is rendered with a tree glyph", r.id)
		} else if it.EpicID == "" {
			bad("orphan task %s is rendered with a tree glyph", r.id)
		} else if it.EpicID != curRoot {
			bad("task %s of epic %s is rendered under %q", r.id, it.EpicID, curRoot)
		}
	}
	// layout
	if width >= 20 {
		for _, r := range rows {
			if r.width > width {
				bad("row of %s is %d columns wide on a %d-column terminal: %q", r.id, r.width, width, clip(r.raw, 200))
			}
			if r.width != width-2 && width >= 30 {
				bad("id of %s ends in column %d, not in column %d like the other rows: %q", r.id, r.width, width-2, clip(r.raw, 200))
			}
		}
	}
	// summary
	want := map[string]int{}
	count := func(items []*Item, buckets ...string) {
		for _, it := range items {
			var b string
			switch {
			case it.Ready:
				b = "ready"
			case it.State == "doing":
				b = "in progress"
			case it.Blocked:
				b = "blocked"
			case it.State == "error":
				b = "error"
			case it.State == "done":
				b = "done"
			case it.State == "canceled":
				b = "canceled"
			}
			for _, x := range buckets {
				if x == b {
					want[b]++
				}
			}
		}
	}
	var act, rdy []*Item
	for _, it := range scope {
		if active(it) {
			act = append(act, it)
		}
		if it.Ready {
			rdy = append(rdy, it)
		}
	}
	expectSummary := true
	switch v.Name {
	case "all":
		count(scope, "ready", "in progress", "blocked", "error", "done", "canceled")
	case "epic":
		count(scope, "ready", "in progress", "blocked", "error", "done", "canceled")
	case "default":
		if len(act) == 0 {
			count(scope, "done", "canceled")
		} else {
			count(act, "ready", "in progress", "blocked", "error")
		}
	case "ready", "epic-ready":
		if len(rdy) == 0 {
			count(act, "in progress", "blocked", "error")
		} else {
			count(rdy, "ready")
		}
	default:
		expectSummary = false
	}
	got, has := parseSummary(other)
	if expectSummary && !quiet && len(scope) > 0 {
		if len(want) > 0 && !has {
			bad("no summary line; expected %v", want)
		}
		if has {
			wj, _ := json.Marshal(want)
			gj, _ := json.Marshal(got)
			if string(wj) != string(gj) {
				bad("summary says %s, the tasks in scope give %s", gj, wj)
			}
		}
	}
	if quiet && has {
		bad("--quiet still prints a summary")
	}
	// empty views print their sentence
	text := strings.Join(other, "\n")
	taskRows := 0
	for _, r := range rows {
		if !snap.Items[r.id].IsEpic {
			taskRows++
		}
	}
	if taskRows == 0 {
		var sentence string
		switch {
		case v.Name == "epics":
			if len(snap.Epics()) == 0 {
				sentence = "No epics."
			}
		case v.Name == "epic" || v.Name == "epic-ready":
			if len(scope) == 0 {
				sentence = "No tasks in this epic."
			} else if v.Name == "epic-ready" {
				sentence = "No ready tasks in this epic."
			}
		case len(snap.Tasks()) == 0:
			if len(rows) == 0 {
				sentence = "No tasks."
			}
		case v.Name == "default":
			sentence = "No active tasks."
		case v.Name == "ready":
			sentence = "No ready tasks."
		}
		if sentence != "" && !strings.Contains(text, sentence) {
			bad("empty view does not print %q (printed: %q)", sentence, clip(text, 200))
		}
	}
	if len(rows) > 0 {
		for _, r := range rows {
			if r.hasAnn {
				notes = append(notes, "annotation")
				break
			}
		}
		for _, r := range rows {
			if strings.Contains(r.raw, "…") {
				notes = append(notes, "truncated")
				break
			}
		}
	}
	return
}

// HumanCase is the replay format: the commands that build the world, then the views.
type HumanCase struct {
	Property   string      `json:"property"`
	Engine     string      `json:"engine"`
	Test       string      `json:"test"`
	Build      []Cmd       `json:"build"`
	Views      []humanView `json:"views"`
	EpicIdx    int         `json:"epic_idx"`
	Violations []Violation `json:"violations,omitempty"`
	// Renderings holds what the judged invocations printed (the first one and the
	// confirming ones); it is documentation for the reader, replay does not use it.
	Renderings []rendering `json:"renderings,omitempty"`
}

// buildHumanWorld replays build commands; ids are positional: "$k" in an argument or in
// stdin is replaced by the id created by the k-th creating command.
func buildHumanWorld(root string, build []Cmd) []string {
	var ids []string
	sub := func(s string) string {
		for i := len(ids) - 1; i >= 0; i-- {
			s = strings.ReplaceAll(s, fmt.Sprintf("$%d$", i), ids[i])
		}
		return s
	}
	for _, c := range build {
		cc := Cmd{Dir: root, Mode: c.Mode, Stdin: sub(c.Stdin)}
		for _, a := range c.Args {
			cc.Args = append(cc.Args, sub(a))
		}
		r := Run(cc)
		if len(c.Args) >= 3 && c.Args[1] == "new" {
			var m struct{ ID string }
			if r.OK() && StrictJSON(r.Stdout, &m) == nil {
				ids = append(ids, m.ID)
			} else {
				ids = append(ids, "000000")
			}
		}
	}
	return ids
}

// confirmations is how often a view that looked wrong is rendered and judged again.
const confirmations = 3

// transient is a look-wrong rendering that did not show again on the unchanged store.
type transient struct {
	Violations []string    `json:"violations"`
	First      rendering   `json:"first"`
	Again      []rendering `json:"again"`
}

// runHumanCase builds the world, renders and judges every view. Nothing writes to the
// store after the build, and `list` is a function of (store, flags, width), so a
// genuine violation shows again when the same view is rendered again. A view that looks
// wrong is therefore rendered up to three more times, each against a freshly taken JSON
// snapshot: the violation is reported when at least one of these shows a violation too
// (so a violation that comes and goes is still reported), with all renderings kept in the
// replay file. One that never shows again cannot be told from a glitch of the observation
// channel and has no replay that fails; it is counted (label render.unconfirmed-transient,
// examples in the evidence) and not reported.
func runHumanCase(hc HumanCase) (viol []string, notes []string, rds []rendering, unconfirmed []transient) {
	root := NewStore("c19")
	defer RemoveAll(root)
	ids := buildHumanWorld(root, hc.Build)
	snap, err := TakeSnapshot(root)
	if err != nil {
		return nil, []string{"snapshot-failed"}, nil, nil
	}
	epic := ""
	if hc.EpicIdx >= 0 && hc.EpicIdx < len(ids) {
		if it := snap.Items[ids[hc.EpicIdx]]; it != nil && it.IsEpic {
			epic = it.ID
		}
	}
	for _, v := range hc.Views {
		vv := v
		e := ""
		if v.Name == "epic" || v.Name == "epic-ready" {
			if epic == "" {
				continue
			}
			e = epic
			vv.Args = append(append([]string{}, v.Args...), "--epic", epic)
		}
		vi, no, rd := checkHumanList(root, snap, vv, e)
		notes = append(notes, no...)
		if len(vi) == 0 {
			continue
		}
		tr := transient{Violations: vi, First: rd}
		confirmed := false
		for k := 0; k < confirmations && !confirmed; k++ {
			snap2, err := TakeSnapshot(root)
			if err != nil {
				notes = append(notes, "snapshot-failed")
				continue
			}
			vi2, _, rd2 := checkHumanList(root, snap2, vv, e)
			tr.Again = append(tr.Again, rd2)
			confirmed = len(vi2) > 0
		}
		if !confirmed {
			notes = append(notes, "unconfirmed-transient")
			unconfirmed = append(unconfirmed, tr)
			continue
		}
		return vi, notes, append([]rendering{tr.First}, tr.Again...), unconfirmed
	}
	return
}

func TestC19(t *testing.T) {
	if os.Getenv("VERIF_MINIMIZE_IN") != "" {
		return
	}
	if p := os.Getenv("VERIF_REPLAY_IN"); p != "" {
		b, _ := os.ReadFile(p)
		var hc HumanCase
		if err := json.Unmarshal(b, &hc); err != nil {
			t.Fatal(err)
		}
		if v, _, _, _ := runHumanCase(hc); len(v) > 0 {
			t.Fatalf("REPLAY-VIOLATION C19: %v", v)
		}
		return
	}
	stats := NewStats("C19", "HUMAN/list-rendering", "generated worlds (0-3 epics, 1-9 tasks; titles and claimant names of 3-150 display columns from width-unambiguous classes: ASCII, Latin letters, CJK / kana / hangul / full-width = 2 columns, combining marks = 0; all six states; task and epic dependencies so that blocker annotations appear) rendered by list with flag sets {default, --all, --ready, --epic X, --epic X --ready, --epics, --quiet} on a pipe and on pseudo terminals of width 20-250; oracle: rows parsed from the output (ANSI stripped, a row ends in two spaces + a live id) vs list --json: --all shows every live item once, default every active task once, --ready exactly the ready tasks, children carry tree glyphs under their own epic and root rows none, summary counts equal the per-bucket task counts of the view's scope, empty views print their sentence, every row is valid UTF-8, at most the terminal width by the harness's own width table, id ending in column width-2; terminal output is captured up to an end marker that the harness writes to the slave side after the child has exited (complete by construction), and a view that looks wrong is rendered up to three more times on the unchanged store and reported when at least one of them looks wrong too; non-trivial = a row was truncated or carries an annotation or wide / combining text; distinct = distinct (world, views)")
	defer stats.Flush()
	deadline := budgetDeadline()
	replayPath := ReplayOutPath("C19")
	rapid.Check(t, func(rt *rapid.T) {
		if !deadline.IsZero() && time.Now().After(deadline) {
			stats.Shortfall = "wall-clock guard reached before all requested worlds ran"
			return
		}
		var build []Cmd
		newCmd := func(kind string, fields map[string]any, agent string) {
			b, _ := json.Marshal(fields)
			args := []string{"--json", "new", kind}
			if agent != "" {
				args = []string{"--json", "--agent", agent, "new", kind}
			}
			build = append(build, Cmd{Args: args, Mode: StdinPipe, Stdin: string(b)})
		}
		nE := between(rt, 0, 3, "epics")
		nT := between(rt, 1, 9, "tasks")
		if nE > 0 && pct(rt, 10, "notasks") {
			nT = 0 // epics are rows too: a store of epics only is not an empty store
		}
		longBias := pct(rt, 50, "long.titles")
		titleOf := func(label string) string {
			if longBias && pct(rt, 50, label+".long") {
				return genDisplayText(rt, label, 40, 150)
			}
			return genDisplayText(rt, label, 3, 45)
		}
		for i := 0; i < nE; i++ {
			newCmd("epic", map[string]any{"title": titleOf(fmt.Sprintf("e%d", i))}, "")
		}
		type tinfo struct{ epic int }
		var tasks []tinfo
		for i := 0; i < nT; i++ {
			f := map[string]any{"title": titleOf(fmt.Sprintf("t%d", i))}
			ti := tinfo{epic: -1}
			if nE > 0 && pct(rt, 65, "inepic") {
				ti.epic = uni(rt, nE, "epic")
				f["epic"] = fmt.Sprintf("$%d$", ti.epic)
			}
			agent := ""
			switch st := oneOf(rt, []string{"todo", "todo", "todo", "doing", "done", "blocked", "canceled", "error-later", "doing"}, "state"); st {
			case "todo":
			case "doing":
				f["state"] = "doing"
				f["claim"] = strings.ReplaceAll(genDisplayText(rt, "agent", 3, 60), " ", "-")
			case "error-later":
				f["state"] = "doing"
				f["claim"] = strings.ReplaceAll(genDisplayText(rt, "agent", 3, 60), " ", "-")
			default:
				f["state"] = st
			}
			newCmd("task", f, agent)
			tasks = append(tasks, ti)
			_ = ti
		}
		// error states (doing -> error keeps the claimant)
		for i := range tasks {
			if strings.Contains(build[nE+i].Stdin, `"doing"`) && pct(rt, 35, "toerror") {
				build = append(build, Cmd{Args: []string{"--json", "set", fmt.Sprintf("$%d$", nE+i)}, Mode: StdinPipe, Stdin: `{"state":"error"}`})
			} else if strings.Contains(build[nE+i].Stdin, `"doing"`) && pct(rt, 30, "toblocked") {
				// blocked by a human while an agent holds it: the claim stays, the state is blocked
				build = append(build, Cmd{Args: []string{"--json", "set", fmt.Sprintf("$%d$", nE+i)}, Mode: StdinPipe, Stdin: `{"state":"blocked"}`})
			}
		}
		// dependencies
		for i := 0; i < nT; i++ {
			for j := 0; j < i; j++ {
				if pct(rt, 22, "tdep") {
					build = append(build, Cmd{Args: []string{"--json", "sequence", fmt.Sprintf("$%d$", nE+j), fmt.Sprintf("$%d$", nE+i)}})
				}
			}
		}
		for i := 0; i < nE; i++ {
			for j := 0; j < i; j++ {
				if pct(rt, 35, "edep") {
					build = append(build, Cmd{Args: []string{"--json", "sequence", fmt.Sprintf("$%d$", j), fmt.Sprintf("$%d$", i)}})
				}
			}
		}
		hc := HumanCase{Property: "C19", Engine: "HUMAN", Test: "TestC19", Build: build, EpicIdx: -1}
		if nE > 0 {
			hc.EpicIdx = uni(rt, nE, "epic.view")
		}
		views := []humanView{{"all", []string{"list", "--all"}, 0}, {"default", []string{"list"}, 0}, {"ready", []string{"list", "--ready"}, 0},
			{"epic", []string{"list"}, 0}, {"epic-ready", []string{"list", "--ready"}, 0}, {"epics", []string{"list", "--epics"}, 0}, {"default", []string{"--quiet", "list"}, 0}}
		nv := between(rt, 3, 6, "views")
		for i := 0; i < nv; i++ {
			v := oneOf(rt, views, "view")
			if pct(rt, 65, "pty") {
				v.Width = oneOf(rt, []int{20, 24, 30, 33, 40, 47, 60, 72, 80, 81, 100, 120, 160, 250}, "width")
			}
			hc.Views = append(hc.Views, v)
		}
		viol, notes, rds, unconfirmed := runHumanCase(hc)
		for _, tr := range unconfirmed {
			stats.Example("unconfirmed_transients", tr, 3)
		}
		if len(viol) > 0 {
			var vs []Violation
			for _, m := range viol {
				vs = append(vs, Violation{"C19", m})
			}
			hc.Violations = vs
			hc.Renderings = rds
			WriteReplay(replayPath, hc)
			rt.Fatalf("C19 violated: %v", viol)
		}
		stats.Eval()
		stats.LabelN("renders", len(hc.Views))
		nt := false
		for _, n := range notes {
			stats.Label("render." + n)
			if n == "annotation" || n == "truncated" {
				nt = true
			}
		}
		for _, v := range hc.Views {
			stats.Label("view." + v.Name)
			if v.Width > 0 {
				stats.Label("on_pty")
			}
		}
		if nt {
			b, _ := json.Marshal(hc)
			stats.NonTrivial(string(b))
		}
		var titles []string
		for _, c := range build {
			if len(c.Args) >= 3 && c.Args[len(c.Args)-2] == "new" {
				titles = append(titles, clip(c.Stdin, 100))
			}
		}
		stats.Sample(len(build), map[string]any{"items": titles, "views": hc.Views})
	})
}

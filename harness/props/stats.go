package props

import (
	"crypto/sha1"
	"encoding/hex"
	"encoding/json"
	"fmt"
	"os"
	"path/filepath"
	"sort"
	"strconv"
	"sync"
	"time"
)

// Stats is what one test process reports to the driver, which merges the shards into
// /verif/evidence/<id>.json.
type Stats struct {
	mu          sync.Mutex
	Property    string            `json:"property"`
	Engine      string            `json:"engine"`
	Rule        string            `json:"rule"`
	Evaluations int               `json:"evaluations"`
	Nontrivial  map[string]bool   `json:"-"`
	NTHashes    []string          `json:"nontrivial_hashes"`
	Labels      map[string]int    `json:"labels"`
	Samples     []any             `json:"samples"`
	Foreign     map[string]int    `json:"foreign_violations"`
	Excluded    map[string]int    `json:"excluded_by_known_finding"`
	Aborted     map[string]int    `json:"aborted_histories"`
	Requested   int               `json:"requested"`
	Shortfall   string            `json:"shortfall,omitempty"`
	Violations  []RecordedFailure `json:"violations"`
	Known       []string          `json:"known_findings_printed"`
	Execs       int64             `json:"ergo_processes"`
	WallS       float64           `json:"wall_s"`
	Extra       map[string]any    `json:"extra,omitempty"`
	start       time.Time
	maxSamples  int
	largest     int
}

// RecordedFailure is one violation with the file that replays it.
type RecordedFailure struct {
	Property string `json:"property"`
	Message  string `json:"message"`
	Replay   string `json:"replay"`
}

func NewStats(prop, engine, rule string) *Stats {
	return &Stats{Property: prop, Engine: engine, Rule: rule, Nontrivial: map[string]bool{}, Labels: map[string]int{},
		Foreign: map[string]int{}, Excluded: map[string]int{}, Aborted: map[string]int{}, start: time.Now(), maxSamples: 4, Extra: map[string]any{}}
}

func (s *Stats) Eval() {
	s.mu.Lock()
	s.Evaluations++
	s.mu.Unlock()
}

// EvalN counts n further executions (re-runs of one instance with a kill, a fault or a
// stop at a different point are executions of their own).
func (s *Stats) EvalN(n int) {
	s.mu.Lock()
	s.Evaluations += n
	s.mu.Unlock()
}

func (s *Stats) Label(l string) {
	s.mu.Lock()
	s.Labels[l]++
	s.mu.Unlock()
}

func (s *Stats) LabelN(l string, n int) {
	s.mu.Lock()
	s.Labels[l] += n
	s.mu.Unlock()
}

// NonTrivial records a canonical description of a non-trivial case (deduplicated by hash).
func (s *Stats) NonTrivial(canon string) {
	h := sha1.Sum([]byte(canon))
	s.mu.Lock()
	s.Nontrivial[hex.EncodeToString(h[:8])] = true
	s.mu.Unlock()
}

// Sample keeps the first few cases and always the largest one seen.
func (s *Stats) Sample(size int, v any) {
	s.mu.Lock()
	defer s.mu.Unlock()
	if len(s.Samples) < s.maxSamples {
		s.Samples = append(s.Samples, v)
		if size > s.largest {
			s.largest = size
		}
		return
	}
	if size > s.largest {
		s.largest = size
		s.Samples[len(s.Samples)-1] = v
	}
}

func (s *Stats) ForeignViolation(prop string) {
	s.mu.Lock()
	s.Foreign[prop]++
	s.mu.Unlock()
}

// ForeignExample keeps the first few foreign violations in full, for diagnosis.
func (s *Stats) ForeignExample(v Violation, trace []string) {
	s.mu.Lock()
	defer s.mu.Unlock()
	ex, _ := s.Extra["foreign_examples"].([]any)
	if len(ex) < 3 {
		s.Extra["foreign_examples"] = append(ex, map[string]any{"violation": v.String(), "history": trace})
	}
}

// Example keeps the first few values of a kind in the evidence, for diagnosis.
func (s *Stats) Example(kind string, v any, max int) {
	s.mu.Lock()
	defer s.mu.Unlock()
	ex, _ := s.Extra[kind].([]any)
	if len(ex) < max {
		s.Extra[kind] = append(ex, v)
	}
}

func (s *Stats) Abort(why string) {
	s.mu.Lock()
	s.Aborted[why]++
	s.mu.Unlock()
}

func (s *Stats) Exclude(key string) {
	s.mu.Lock()
	s.Excluded[key]++
	s.mu.Unlock()
}

func (s *Stats) AddViolation(prop, msg, replay string) {
	s.mu.Lock()
	s.Violations = append(s.Violations, RecordedFailure{prop, msg, replay})
	s.mu.Unlock()
}

// Flush writes the stats file named by VERIF_STATS (no-op when unset).
func (s *Stats) Flush() {
	s.mu.Lock()
	defer s.mu.Unlock()
	s.NTHashes = s.NTHashes[:0]
	for h := range s.Nontrivial {
		s.NTHashes = append(s.NTHashes, h)
	}
	sort.Strings(s.NTHashes)
	s.Execs = ExecCount()
	s.WallS = time.Since(s.start).Seconds()
	p := os.Getenv("VERIF_STATS")
	if p == "" {
		return
	}
	b, _ := json.MarshalIndent(s, "", " ")
	_ = os.MkdirAll(filepath.Dir(p), 0o755)
	_ = os.WriteFile(p, b, 0o644)
}

// ---- environment knobs ----

func envInt(name string, def int) int {
	if v := os.Getenv(name); v != "" {
		if n, err := strconv.Atoi(v); err == nil {
			return n
		}
	}
	return def
}

func Tier() string {
	if os.Getenv("VERIF_TIER") == "thorough" {
		return "thorough"
	}
	return "quick"
}

func Shard() int { return envInt("VERIF_SHARD", 0) }

// ReplayOutPath is where a failing case is written.
func ReplayOutPath(prop string) string {
	if p := os.Getenv("VERIF_REPLAY_OUT"); p != "" {
		return p
	}
	return filepath.Join("/verif/replays", prop, fmt.Sprintf("dev-%d.json", os.Getpid()))
}

// WriteReplay stores a replayable case.
func WriteReplay(path string, v any) {
	b, _ := json.MarshalIndent(v, "", " ")
	_ = os.MkdirAll(filepath.Dir(path), 0o755)
	_ = os.WriteFile(path, b, 0o644)
}

// Deadline support: checks are bounded by case count; the wall-clock guard only stops
// generation early and records the shortfall.
func budgetDeadline() time.Time {
	secs := envInt("VERIF_BUDGET_S", 0)
	if secs <= 0 {
		return time.Time{}
	}
	return time.Now().Add(time.Duration(secs) * time.Second)
}

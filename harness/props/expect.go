package props

import (
	"crypto/sha256"
	"fmt"
	"net/url"
	"os"
	"path/filepath"
	"sort"
	"strings"
	"time"
	"unicode/utf8"
)

// Decision is what the documented semantics say about a request.
type Decision int

const (
	MustAccept Decision = iota
	MustReject
	Either
)

func (d Decision) String() string {
	return [...]string{"MUST_ACCEPT", "MUST_REJECT", "EITHER"}[d]
}

// Reason explains a MUST_REJECT / EITHER verdict and names the property that owns it
// ("" = plain input validation that no listed property speaks about).
type Reason struct {
	Owner string `json:"owner"`
	Why   string `json:"why"`
}

// Violation is one broken obligation, attributed to a property.
type Violation struct {
	Prop string `json:"prop"`
	Msg  string `json:"msg"`
}

func (v Violation) String() string { return v.Prop + ": " + v.Msg }

// Prediction is the model's verdict on one op in one state.
type Prediction struct {
	Decision Decision
	Rejects  []Reason // reasons that demand rejection
	Eithers  []Reason // reasons that leave it open
}

func (p *Prediction) reject(owner, why string) {
	p.Rejects = append(p.Rejects, Reason{owner, why})
}
func (p *Prediction) either(owner, why string) {
	p.Eithers = append(p.Eithers, Reason{owner, why})
}
func (p *Prediction) finish() {
	switch {
	case len(p.Rejects) > 0:
		p.Decision = MustReject
	case len(p.Eithers) > 0:
		p.Decision = Either
	default:
		p.Decision = MustAccept
	}
}

// stateClaim is the outcome of the state-machine part of a request.
type stateClaim struct {
	touches  bool
	newState string
	newClaim string
}

// decideStateClaim applies DESIGN Appendix A to the (state, claim, --agent) part of a
// request against a task currently in (cur, curClaim).
func decideStateClaim(p *Prediction, cur, curClaim string, state, claim *string, agent string) stateClaim {
	if state == nil && claim == nil {
		return stateClaim{false, cur, curClaim}
	}
	if state != nil && !validState(*state) {
		p.reject("", "state value is not one of the six states")
		return stateClaim{false, cur, curClaim}
	}
	target := cur
	if state != nil {
		target = *state
	} else if *claim != "" {
		target = "doing"
	}
	newClaim := curClaim
	switch {
	case claim != nil && *claim != "":
		newClaim = *claim
	case claim != nil:
		newClaim = ""
	default:
		if newClaim == "" && needsClaim(target) {
			newClaim = agent
		}
	}
	final := newClaim
	if forbidsClaim(target) {
		final = ""
	}
	out := stateClaim{true, target, final}
	if state != nil {
		switch {
		case needsClaim(target) && final == "":
			p.reject("C06", fmt.Sprintf("state %s needs a claimant and none is available", target))
		case target == cur:
			p.either("C06", "state equals the current state")
		case !transitionTable[cur][target]:
			p.reject("C06", fmt.Sprintf("transition %s -> %s is not in the table", cur, target))
		case forbidsClaim(target) && claim != nil && *claim != "":
			p.either("C06", fmt.Sprintf("claim given together with state %s", target))
		}
		return out
	}
	// claim without state
	if *claim != "" {
		switch {
		case cur == "doing":
			p.either("C06", "claim on a task that is already doing")
		case !transitionTable[cur]["doing"]:
			p.reject("C06", fmt.Sprintf("claim implies %s -> doing, which is not in the table", cur))
		}
		return out
	}
	p.either("C06", "claim cleared without a state")
	return out
}

// resultVerdict describes the result-attachment part of a request.
type resultVerdict struct {
	present   bool
	cleanPath string
	sha       string
	summary   string
}

func decideResult(p *Prediction, root string, path, summary *string) resultVerdict {
	if path == nil && summary == nil {
		return resultVerdict{}
	}
	if path == nil || summary == nil {
		p.reject("", "result_path and result_summary must come together")
		return resultVerdict{}
	}
	rv := resultVerdict{present: true}
	s := strings.TrimSpace(*summary)
	rv.summary = s
	switch {
	case s == "":
		p.reject("", "blank result summary")
	case strings.ContainsAny(s, "\n\r"):
		p.reject("", "multi-line result summary")
	case utf8.RuneCountInString(s) > 120:
		p.reject("", "result summary longer than 120 characters")
	case len(s) > 120:
		p.either("", "result summary over 120 bytes but not over 120 characters")
	}
	clean := filepath.Clean(*path)
	rv.cleanPath = clean
	switch {
	case filepath.IsAbs(clean):
		p.reject("C20", "absolute result path")
		return rv
	case clean == ".." || strings.HasPrefix(clean, "../"):
		p.reject("C20", "result path leaves the project root")
		return rv
	case clean == ".ergo" || strings.HasPrefix(clean, ".ergo/"):
		p.reject("C20", "result path inside .ergo")
		return rv
	}
	full := filepath.Join(root, clean)
	li, lerr := os.Lstat(full)
	fi, serr := os.Stat(full)
	switch {
	case lerr != nil || serr != nil:
		p.reject("C20", "result file does not exist")
		return rv
	case fi.IsDir():
		p.reject("C20", "result path is a directory")
		return rv
	case !fi.Mode().IsRegular():
		p.either("C20", "result path is not a regular file")
	}
	if li.Mode()&os.ModeSymlink != 0 {
		p.either("C20", "result path is a symlink")
	}
	// a symlinked directory component, a nested .ergo, or odd names leave it open
	if real, err := filepath.EvalSymlinks(full); err == nil {
		realRoot, _ := filepath.EvalSymlinks(root)
		if real != filepath.Join(realRoot, clean) {
			p.either("C20", "path goes through a symlink")
		}
	}
	for _, part := range strings.Split(clean, "/") {
		if part == ".ergo" {
			p.either("C20", "nested .ergo component")
		}
		if strings.HasPrefix(part, "..") {
			p.either("C20", "component starting with two dots")
		}
	}
	if b, err := os.ReadFile(full); err == nil {
		rv.sha = fmt.Sprintf("%x", sha256.Sum256(b))
	}
	return rv
}

// liveKind returns "task", "epic", "pruned" or "unknown" for an id.
func (w *World) liveKind(s *Snapshot, id string) string {
	if it := s.Items[id]; it != nil {
		if it.IsEpic {
			return "epic"
		}
		return "task"
	}
	if w.Pruned[id] {
		return "pruned"
	}
	return "unknown"
}

func missingOwner(kind string) string {
	if kind == "pruned" {
		return "C09"
	}
	return ""
}

// validatePlanDoc returns the reasons a plan document must be rejected (C11).
func validatePlanDoc(d *PlanDoc) []string {
	var why []string
	if d == nil {
		return []string{"no document"}
	}
	if d.Title == nil || isBlank(*d.Title) {
		why = append(why, "missing or blank epic title")
	}
	if d.Body != nil && isBlank(*d.Body) {
		why = append(why, "blank epic body")
	}
	if len(d.Tasks) == 0 {
		why = append(why, "empty task list")
	}
	titles := map[string]bool{}
	for i, t := range d.Tasks {
		if t.Title == nil || isBlank(*t.Title) {
			why = append(why, fmt.Sprintf("task %d: missing or blank title", i))
			continue
		}
		if titles[*t.Title] {
			why = append(why, fmt.Sprintf("task %d: duplicate title", i))
		}
		titles[*t.Title] = true
		if t.Body != nil && isBlank(*t.Body) {
			why = append(why, fmt.Sprintf("task %d: blank body", i))
		}
	}
	deps := map[string][]string{}
	for i, t := range d.Tasks {
		if t.Title == nil {
			continue
		}
		for _, a := range t.After {
			switch {
			case isBlank(a):
				why = append(why, fmt.Sprintf("task %d: blank after entry", i))
			case a == *t.Title:
				why = append(why, fmt.Sprintf("task %d: depends on itself", i))
			case !titles[a]:
				why = append(why, fmt.Sprintf("task %d: dangling after %q", i, a))
			default:
				deps[*t.Title] = append(deps[*t.Title], a)
			}
		}
	}
	if len(why) == 0 {
		color := map[string]int{}
		var visit func(string) bool
		visit = func(n string) bool {
			color[n] = 1
			for _, m := range deps[n] {
				if color[m] == 1 || (color[m] == 0 && visit(m)) {
					return true
				}
			}
			color[n] = 2
			return false
		}
		keys := make([]string, 0, len(titles))
		for k := range titles {
			keys = append(keys, k)
		}
		sort.Strings(keys)
		for _, k := range keys {
			if color[k] == 0 && visit(k) {
				why = append(why, "cyclic after graph")
				break
			}
		}
	}
	return why
}

// Predict gives the model's verdict for op in state pre.
func (w *World) Predict(pre *Snapshot, op Op) Prediction {
	p := w.predict(pre, op)
	p.finish()
	return p
}

func (w *World) predict(pre *Snapshot, op Op) Prediction {
	var p Prediction
	if op.HoldLock && op.Kind != "init" {
		p.either("C02", "lock held by the harness")
	}
	inputChecks := func(isNew, isEpic bool) {
		if op.Raw != nil {
			p.reject("", "stdin is not a single valid JSON object")
			return
		}
		if op.ExtraKey != "" {
			p.reject("", "unknown key")
		}
		if isNew && (op.Title == nil || isBlank(*op.Title)) {
			p.reject("", "title missing or blank")
		}
		if !isNew && op.Title != nil && isBlank(*op.Title) {
			p.reject("", "blank title")
		}
		if op.Body != nil && isBlank(*op.Body) {
			if op.Mode == "bodystdin" && isNew {
				// new --body-stdin accepts an empty stdin as "no body"
				p.either("", "blank body on --body-stdin create")
			} else if op.Mode == "flags" && *op.Body == "" {
				// cannot happen: the generator never passes an empty flag
			} else {
				p.reject("", "blank body")
			}
		}
		if op.Mode == "bodystdin" && op.Body == nil && !isNew {
			p.reject("", "--body-stdin without a body")
		}
		if !isNew && op.Mode != "bodystdin" && op.Title == nil && op.Body == nil && op.Epic == nil && op.State == nil && op.Claim == nil && op.ResultPath == nil && op.ResultSummary == nil && op.ExtraKey == "" {
			p.reject("", "no fields to update")
		}
	}
	switch op.Kind {
	case "new_epic":
		inputChecks(true, true)
		if op.Epic != nil {
			p.reject("C14", "epics cannot belong to an epic")
		}
		if op.State != nil || op.Claim != nil {
			p.reject("C06", "epics have no state or claimant")
		}
		if op.ResultPath != nil || op.ResultSummary != nil {
			p.either("C20", "result fields on new epic")
		}
	case "new_task":
		inputChecks(true, false)
		if op.Epic != nil {
			id := w.Resolve(*op.Epic)
			if id != "" {
				switch k := w.liveKind(pre, id); k {
				case "epic":
				default:
					p.reject("C14", "epic id is "+k)
				}
			}
		}
		decideStateClaim(&p, "todo", "", op.State, op.Claim, op.Agent)
		decideResult(&p, w.Root, op.ResultPath, op.ResultSummary)
		if len(p.Rejects) == 0 && op.Epic != nil && w.Resolve(*op.Epic) != "" {
			exp := pre.Clone()
			exp.Items["\x00new"] = &Item{ID: "\x00new", EpicID: w.Resolve(*op.Epic), State: "todo"}
			if WaitCycle(exp) && !WaitCycle(pre) {
				p.reject("C15", "new member would close a waits-for cycle through epic dependencies")
			}
		}
	case "set":
		inputChecks(false, false)
		id := w.Resolve(*op.Target)
		kind := w.liveKind(pre, id)
		if kind == "pruned" || kind == "unknown" {
			p.reject(missingOwner(kind), "target id is "+kind)
			return p
		}
		it := pre.Items[id]
		if it.IsEpic {
			if op.State != nil || op.Claim != nil {
				p.reject("C06", "epics have no state or claimant")
			}
			if op.Epic != nil {
				p.reject("C14", "epics cannot belong to an epic")
			}
			if op.ResultPath != nil || op.ResultSummary != nil {
				p.reject("C20", "results attach to tasks only")
			}
			return p
		}
		if op.Epic != nil {
			eid := w.Resolve(*op.Epic)
			if eid != "" {
				if k := w.liveKind(pre, eid); k != "epic" {
					p.reject("C14", "epic id is "+k)
				} else if eid != it.EpicID {
					exp := pre.Clone()
					exp.Items[id].EpicID = eid
					if WaitCycle(exp) && !WaitCycle(pre) {
						p.reject("C15", "move would close a waits-for cycle through epic dependencies")
					}
				}
			}
		}
		decideStateClaim(&p, it.State, it.ClaimedBy, op.State, op.Claim, op.Agent)
		decideResult(&p, w.Root, op.ResultPath, op.ResultSummary)
	case "claim_id":
		id := w.Resolve(*op.Target)
		kind := w.liveKind(pre, id)
		if op.Agent == "" {
			p.reject("", "claim needs --agent")
		}
		if op.EpicFilter != nil {
			p.either("", "claim <id> together with --epic: the manual gives --epic a meaning only without an id")
		}
		switch kind {
		case "pruned", "unknown":
			p.reject(missingOwner(kind), "target id is "+kind)
		case "epic":
			p.reject("C06", "epics cannot be claimed")
		default:
			it := pre.Items[id]
			if op.Agent != "" {
				doing := "doing"
				decideStateClaim(&p, it.State, it.ClaimedBy, &doing, &op.Agent, op.Agent)
			}
		}
	case "claim":
		if op.Agent == "" {
			p.reject("", "claim needs --agent")
		}
	case "sequence":
		if len(op.Refs) < 2 {
			p.reject("", "sequence needs two ids")
			return p
		}
		ids := make([]string, len(op.Refs))
		kinds := map[string]bool{}
		ok := true
		for i, r := range op.Refs {
			ids[i] = w.Resolve(r)
			k := w.liveKind(pre, ids[i])
			if k == "pruned" || k == "unknown" {
				owner := "C07"
				if k == "pruned" {
					owner = "C09"
				}
				p.reject(owner, fmt.Sprintf("id %d is %s", i, k))
				ok = false
			} else {
				kinds[k] = true
			}
		}
		if len(kinds) > 1 {
			p.reject("C07", "tasks and epics mixed")
			ok = false
		}
		if !ok {
			return p
		}
		exp := pre.Clone()
		for i := 0; i+1 < len(ids); i++ {
			from, to := ids[i+1], ids[i]
			if from == to {
				p.reject("C07", "self dependency")
				return p
			}
			if reaches(exp, to, from, map[string]bool{}) {
				p.reject("C07", "edge would close a cycle")
				return p
			}
			exp.Items[from].Deps = addStr(exp.Items[from].Deps, to)
		}
		if WaitCycle(exp) && !WaitCycle(pre) {
			p.reject("C15", "edges would close a waits-for cycle through epic dependencies")
		}
	case "sequence_rm":
		if len(op.Refs) != 2 {
			p.reject("", "sequence rm needs two ids")
			return p
		}
		a, b := w.Resolve(op.Refs[0]), w.Resolve(op.Refs[1])
		ka, kb := w.liveKind(pre, a), w.liveKind(pre, b)
		switch {
		case ka == "pruned" || kb == "pruned":
			p.reject("C09", "pruned id")
		case ka == "unknown" || kb == "unknown" || ka != kb || a == b:
			p.either("C07", "odd ids for sequence rm")
		case !hasStr(pre.Items[b].Deps, a):
			p.either("C07", "edge absent")
		}
	case "plan":
		if op.Raw != nil {
			p.reject("C11", "stdin is not a single valid plan object")
			return p
		}
		for _, why := range validatePlanDoc(op.Plan) {
			p.reject("C11", why)
		}
	case "prune", "prune_yes", "compact", "init":
	}
	return p
}

func addStr(s []string, x string) []string {
	if hasStr(s, x) {
		return s
	}
	s = append(s, x)
	sort.Strings(s)
	return s
}

func hasStr(s []string, x string) bool {
	for _, y := range s {
		if y == x {
			return true
		}
	}
	return false
}

func delStr(s []string, x string) []string {
	out := s[:0:0]
	for _, y := range s {
		if y != x {
			out = append(out, y)
		}
	}
	return out
}

func timeParse(s string) (time.Time, bool) {
	t, err := time.Parse(time.RFC3339Nano, s)
	return t, err == nil
}

func timeLess(a, b string) bool {
	x, ok1 := timeParse(a)
	y, ok2 := timeParse(b)
	if !ok1 || !ok2 {
		return a < b
	}
	return x.Before(y)
}

func timeEqual(a, b string) bool {
	x, ok1 := timeParse(a)
	y, ok2 := timeParse(b)
	if !ok1 || !ok2 {
		return a == b
	}
	return x.Equal(y)
}

// fileURLPath parses a file:// URL and returns its path.
func fileURLPath(u string) (string, error) {
	p, err := url.Parse(u)
	if err != nil {
		return "", err
	}
	if p.Scheme != "file" {
		return "", fmt.Errorf("scheme %q", p.Scheme)
	}
	if p.Host != "" {
		return "", fmt.Errorf("host %q in file url", p.Host)
	}
	return p.Path, nil
}

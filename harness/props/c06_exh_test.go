package props

import (
	"fmt"
	"os"
	"sort"
	"strconv"
	"strings"
	"testing"
)

// TestC06Exhaustive enumerates a finite product completely instead of sampling it: every
// (state, claimant) pair of one task that the reference model says is reachable, times
// every request shape that touches state or claim - state absent / each of the six states
// / an unknown one, claim absent / empty / agent a1 / agent a2, --agent given or not,
// JSON stdin or flags, plus `claim <id>` with and without --agent - and the same product
// at creation. Each case is run on a fresh store (the pair is reached along the model's
// shortest path of MUST_ACCEPT requests) and judged by the ordinary step oracle.
type exhPair struct{ state, claim string }

type exhReq struct {
	kind  string // set | claim_id | new_task
	mode  string
	state *string
	claim *string
	agent string
}

func (r exhReq) String() string {
	s, c := "-", "-"
	if r.state != nil {
		s = *r.state
	}
	if r.claim != nil {
		c = strconv.Quote(*r.claim)
	}
	return fmt.Sprintf("%s/%s state=%s claim=%s agent=%q", r.kind, r.mode, s, c, r.agent)
}

func exhRequests(kind string) []exhReq {
	var out []exhReq
	states := []*string{nil, sp("todo"), sp("doing"), sp("done"), sp("blocked"), sp("canceled"), sp("error"), sp("bogus")}
	claims := []*string{nil, sp(""), sp("a1"), sp("a2")}
	for _, st := range states {
		for _, cl := range claims {
			if st == nil && cl == nil {
				continue
			}
			for _, ag := range []string{"", "a1"} {
				for _, mode := range []string{"json", "flags"} {
					if mode == "flags" && cl != nil && *cl == "" {
						continue // the manual: --claim "" is no unclaim ("unclaim only via JSON")
					}
					out = append(out, exhReq{kind, mode, st, cl, ag})
				}
			}
		}
	}
	if kind == "set" {
		for _, ag := range []string{"", "a1", "a2"} {
			out = append(out, exhReq{"claim_id", "", nil, nil, ag})
		}
	}
	return out
}

func (r exhReq) op(n int, target *Ref, title string) Op {
	op := Op{N: n, Kind: r.kind, Mode: r.mode, State: r.state, Claim: r.claim, Agent: r.agent, Target: target}
	if r.kind == "new_task" {
		op.Target = nil
		op.Title = sp(title)
	}
	return op
}

// exhReachable walks the model: pairs reachable from (todo, unclaimed) and for each the
// shortest path of requests the model says MUST be accepted.
func exhReachable() (pairs []exhPair, paths map[exhPair][]exhReq, eitherOnly int) {
	start := exhPair{"todo", ""}
	paths = map[exhPair][]exhReq{start: nil}
	viaEither := map[exhPair]bool{}
	queue := []exhPair{start}
	reqs := exhRequests("set")
	for len(queue) > 0 {
		cur := queue[0]
		queue = queue[1:]
		for _, r := range reqs {
			if r.mode == "flags" {
				continue // same semantics; paths use JSON
			}
			var p Prediction
			var sc stateClaim
			if r.kind == "claim_id" {
				ag := r.agent
				sc = decideStateClaim(&p, cur.state, cur.claim, nil, &ag, "")
				if ag == "" {
					continue
				}
			} else {
				sc = decideStateClaim(&p, cur.state, cur.claim, r.state, r.claim, r.agent)
			}
			p.finish()
			next := exhPair{sc.newState, sc.newClaim}
			if !sc.touches || p.Decision == MustReject {
				continue
			}
			if p.Decision == Either {
				if _, ok := paths[next]; !ok {
					viaEither[next] = true
				}
				continue
			}
			if _, ok := paths[next]; !ok {
				paths[next] = append(append([]exhReq{}, paths[cur]...), r)
				queue = append(queue, next)
			}
		}
	}
	for p := range paths {
		pairs = append(pairs, p)
	}
	sort.Slice(pairs, func(i, j int) bool {
		return pairs[i].state+"|"+pairs[i].claim < pairs[j].state+"|"+pairs[j].claim
	})
	for p := range viaEither {
		if _, ok := paths[p]; !ok {
			eitherOnly++
		}
	}
	return
}

func TestC06Exhaustive(t *testing.T) {
	if os.Getenv("VERIF_MINIMIZE_IN") != "" {
		return // a case is at most four commands long
	}
	if p := os.Getenv("VERIF_REPLAY_IN"); p != "" {
		replaySeq(t, SeqCheck{Prop: "C06", Profile: Profile{Name: "state-machine"}}, p)
		return
	}
	shard, _ := strconv.Atoi(os.Getenv("VERIF_SHARD"))
	shards, _ := strconv.Atoi(os.Getenv("VERIF_SHARDS"))
	if shards <= 0 {
		shards = 1
	}
	stats := NewStats("C06", "ENUM/state-claim-product", "complete enumeration, no sampling: every (state, claimant) pair of a task that the reference model reaches from (todo, unclaimed), times every request touching state or claim (state absent / six states / unknown value; claim absent / empty / a1 / a2; --agent absent / a1; JSON stdin / flags; `claim <id>` with --agent absent / a1 / a2), plus the same product at creation; each case on a fresh store, the pair reached along the model's shortest MUST_ACCEPT path; oracle: the ordinary step oracle (decision table, expected state and claimant, invariants, unchanged on rejection); every case is distinct; non-trivial = the request is not rejected as plain input validation (it reaches the transition table or the claim rule); the shards partition the product by index")
	defer stats.Flush()
	pairs, paths, eitherOnly := exhReachable()
	stats.LabelN("reachable_pairs_in_the_model", len(pairs))
	stats.LabelN("pairs_reachable_only_through_EITHER_requests_not_enumerated", eitherOnly)
	type job struct {
		pair *exhPair
		req  exhReq
	}
	var jobs []job
	for i := range pairs {
		for _, r := range exhRequests("set") {
			jobs = append(jobs, job{&pairs[i], r})
		}
	}
	for _, r := range exhRequests("new_task") {
		jobs = append(jobs, job{nil, r})
	}
	stats.LabelN("cases_in_the_whole_product", len(jobs))
	replayPath := ReplayOutPath("C06")
	for idx, j := range jobs {
		if idx%shards != shard {
			continue
		}
		w := NewWorld("C06x")
		pre, err := TakeSnapshot(w.Root)
		if err != nil {
			w.Close()
			t.Fatalf("fresh store unreadable")
		}
		var hist []Op
		step := func(op Op) (StepOut, bool) {
			out := w.Step(pre, op)
			hist = append(hist, op)
			if out.Post != nil {
				pre = out.Post
			}
			return out, out.Post != nil && out.Abort == "" && len(out.Viol) == 0
		}
		ok := true
		var target *Ref
		desc := "at creation"
		if j.pair != nil {
			desc = fmt.Sprintf("from (%s, %q)", j.pair.state, j.pair.claim)
			_, ok = step(Op{N: 0, Kind: "new_task", Mode: "json", Title: sp("the task")})
			target = &Ref{Op: 0, Sub: 0}
			for k, r := range paths[*j.pair] {
				if !ok {
					break
				}
				_, ok = step(r.op(k+1, target, ""))
			}
			if ok {
				it := pre.Items[w.Resolve(*target)]
				if it == nil || it.State != j.pair.state || it.ClaimedBy != j.pair.claim {
					ok = false
				}
			}
			if !ok {
				// the path itself went wrong: that is a violation found on the way (reported by
				// the failing step below) or a pair the binary does not reach as the model says
				stats.Label("pair_not_reached_as_the_model_says")
			}
		}
		var out StepOut
		if ok {
			out, _ = step(j.req.op(100, target, "made with state and claim"))
		} else {
			// re-run the path to report what went wrong on it
			w.Close()
			w = NewWorld("C06x")
			pre, _ = TakeSnapshot(w.Root)
			hist = nil
			out, ok = step(Op{N: 0, Kind: "new_task", Mode: "json", Title: sp("the task")})
			for k, r := range paths[*j.pair] {
				if !ok {
					break
				}
				out, ok = step(r.op(k+1, target, ""))
			}
			if ok {
				out.Viol = append(out.Viol, Violation{"C06", fmt.Sprintf("the model reaches (%s, %q) by %v, the store does not", j.pair.state, j.pair.claim, paths[*j.pair])})
			}
		}
		own, foreign := splitViolations(out.Viol, "C06")
		for _, v := range foreign {
			stats.ForeignViolation(v.Prop)
		}
		if len(own) > 0 {
			WriteReplay(replayPath, History{Property: "C06", Engine: "SEQ", Profile: "state-machine", Ops: hist, Violations: own, Note: "found by the exhaustive product: " + desc + " " + j.req.String()})
			w.Close()
			t.Fatalf("C06 violated %s by %s: %v", desc, j.req, own)
		}
		stats.Eval()
		stats.Label("decision." + out.Decision)
		if out.Accepted {
			stats.Label("accepted")
		} else {
			stats.Label("rejected")
		}
		plain := false
		if j.req.state != nil && *j.req.state == "bogus" {
			plain = true
		}
		if !plain {
			stats.NonTrivial(desc + " " + j.req.String())
		}
		if idx%97 == shard%97 {
			stats.Sample(len(hist), map[string]any{"pre": desc, "request": strings.Join(w.Build(hist[len(hist)-1]).Args, " "), "stdin": w.Build(hist[len(hist)-1]).Stdin, "decision": out.Decision, "accepted": out.Accepted, "path_length": len(hist) - 1})
		}
		w.Close()
	}
}

module verif/harness

go 1.23

require (
	github.com/creack/pty v1.1.24
	pgregory.net/rapid v1.3.0
)
